//! Workload: the shaders shipped in the repository plus seeded generators, and the option matrix.

use crate::rng::Rng;
use serde::{Deserialize, Serialize};
use std::fmt::Write as _;
use std::path::PathBuf;

pub fn repo_root() -> PathBuf {
    PathBuf::from(std::env::var("VERIF_REPO").unwrap_or_else(|_| "/repo".to_string()))
}

pub const REPO_SHADERS: &[&str] = &[
    "wgsl_to_wgpu/src/data/fragment_simple.wgsl",
    "wgsl_to_wgpu/src/data/struct/serde_encase_bytemuck.wgsl",
    "wgsl_to_wgpu/src/data/struct/bytemuck_input_layout_validation.wgsl",
    "wgsl_to_wgpu/src/data/struct/encase_bytemuck.wgsl",
    "wgsl_to_wgpu/src/data/struct/types.wgsl",
    "wgsl_to_wgpu/src/data/bindgroup/vertex_fragment.wgsl",
    "wgsl_to_wgpu/src/data/bindgroup/vertex.wgsl",
    "wgsl_to_wgpu/src/data/bindgroup/compute.wgsl",
    "wgsl_to_wgpu/src/data/bindgroup/fragment.wgsl",
    "wgsl_to_wgpu/tests/wgsl/shader_stage_collection.wgsl",
    "wgsl_to_wgpu/tests/wgsl/vertex_entries.wgsl",
    "example/src/shader.wgsl",
    "example/src/compute_shader.wgsl",
];

#[derive(Debug, Clone, Serialize, Deserialize, PartialEq, Eq, Hash)]
#[serde(tag = "kind", rename_all = "snake_case")]
pub enum ShaderRef {
    /// A file of the repository under test, relative to its root.
    Repo { path: String },
    /// `gen_shader(seed, scale)`.
    Gen { seed: u64, scale: u32 },
    /// Sources that are expected to be rejected (parse error, validation error, group numbering).
    Bad { which: u32 },
    /// Deeply nested types (kind 0, 2) or deep call graphs (kind 1): many scheduling points
    /// inside the recursive walkers of the generator.
    Deep { shape: u8, depth: u32, variant: u32 },
    /// The generated shader `seed` (scale 1) plus one constant that differs per `variant`:
    /// different sources and outputs, identical cost (used to make concurrent calls finish at the
    /// same instant in stress processes).
    Twin { seed: u64, variant: u32 },
    /// A tiny shader behind `kb` kilobytes of comment made of 3-byte characters (after `pad` ASCII
    /// bytes): in the embedded SOURCE literal two of three byte offsets fall inside a character,
    /// so any fixed-size cut of the text lands inside one for at least two of the pads 0, 1, 2.
    Dense { kb: u32, pad: u32 },
    /// Bulk: `structs` storage structs with `members` vec4 members each (megabytes of bindings).
    Bulk { structs: u32, members: u32 },
    /// Siblings: for one `seed` the same declarations in the same order with the same names, array
    /// lengths and sizes; `variant` only picks the scalar type in each leaf position (all four
    /// bytes wide), the sampled type of a texture, a storage format, constant values. Arena
    /// indices, names, offsets and strides of two siblings coincide while their outputs differ -
    /// whatever a change remembers under a key that is only unique *within* one module
    /// (a handle, a name, a size) is confused by the next sibling.
    Sibling { seed: u64, variant: u32 },
    /// Literal source (used by minimised replay files).
    Inline { source: String },
}

impl ShaderRef {
    pub fn source(&self) -> String {
        match self {
            ShaderRef::Repo { path } => std::fs::read_to_string(repo_root().join(path))
                .unwrap_or_else(|_| "@fragment fn fs_main() {}".to_string()),
            ShaderRef::Gen { seed, scale } => gen_shader(*seed, *scale),
            ShaderRef::Bad { which } => bad_shader(*which),
            ShaderRef::Deep { shape, depth, variant } => deep_shader(*shape, *depth, *variant),
            ShaderRef::Bulk { structs, members } => bulk_shader(*structs, *members),
            ShaderRef::Twin { seed, variant } => {
                format!("{}\nconst TWIN_ID: u32 = {variant}u;\n", gen_shader(*seed, 1))
            }
            ShaderRef::Dense { kb, pad } => format!(
                "// {}{}\n@group(0) @binding(0) var<uniform> tint: vec4<f32>;\n@fragment\nfn fs_main() -> @location(0) vec4<f32> {{\n    return tint;\n}}\n",
                "x".repeat(*pad as usize),
                "語".repeat(*kb as usize * 1024 / 3)
            ),
            ShaderRef::Sibling { seed, variant } => sibling_shader(*seed, *variant),
            ShaderRef::Inline { source } => source.clone(),
        }
    }

    pub fn describe(&self) -> String {
        match self {
            ShaderRef::Repo { path } => format!("repo:{}", path.rsplit('/').next().unwrap_or(path)),
            ShaderRef::Gen { seed, scale } => format!("gen:{seed:x}/{scale}"),
            ShaderRef::Bad { which } => format!("bad:{which}"),
            ShaderRef::Deep { shape, depth, variant } => format!("deep:{shape}/{depth}/{variant}"),
            ShaderRef::Bulk { structs, members } => format!("bulk:{structs}x{members}"),
            ShaderRef::Twin { seed, variant } => format!("twin:{seed:x}/{variant}"),
            ShaderRef::Dense { kb, pad } => format!("dense:{kb}k+{pad}"),
            ShaderRef::Sibling { seed, variant } => format!("sibling:{seed:x}/{variant}"),
            ShaderRef::Inline { source } => format!("inline:{}B", source.len()),
        }
    }
}

#[derive(Debug, Clone, Copy, Serialize, Deserialize, PartialEq, Eq, Hash)]
pub struct Opts {
    pub bytemuck_vertex: bool,
    pub bytemuck_host: bool,
    pub encase_host: bool,
    pub serde: bool,
    /// 0 = Rust, 1 = Glam, 2 = Nalgebra
    pub mvt: u8,
    pub rustfmt: bool,
    pub validate: bool,
    /// capabilities the validator is given (only with `validate`): 0 the crate's default (all),
    /// 1 naga's default set, 2 none - the same shader is accepted under one and rejected under
    /// another
    #[serde(default)]
    pub caps: u8,
}

impl Opts {
    pub fn plain() -> Self {
        Opts {
            bytemuck_vertex: false,
            bytemuck_host: false,
            encase_host: false,
            serde: false,
            mvt: 0,
            rustfmt: false,
            validate: false,
            caps: 0,
        }
    }

    pub fn random(rng: &mut Rng) -> Self {
        Opts {
            bytemuck_vertex: rng.bool(),
            bytemuck_host: rng.bool(),
            encase_host: rng.bool(),
            serde: rng.bool(),
            mvt: rng.below(3) as u8,
            rustfmt: false,
            validate: rng.bool(),
            caps: 0,
        }
    }

    pub fn to_write_options(self) -> wgsl_to_wgpu::WriteOptions {
        wgsl_to_wgpu::WriteOptions {
            derive_bytemuck_vertex: self.bytemuck_vertex,
            derive_bytemuck_host_shareable: self.bytemuck_host,
            derive_encase_host_shareable: self.encase_host,
            derive_serde: self.serde,
            matrix_vector_types: match self.mvt {
                0 => wgsl_to_wgpu::MatrixVectorTypes::Rust,
                1 => wgsl_to_wgpu::MatrixVectorTypes::Glam,
                _ => wgsl_to_wgpu::MatrixVectorTypes::Nalgebra,
            },
            rustfmt: self.rustfmt,
            validate: self.validate.then(|| wgsl_to_wgpu::ValidationOptions {
                capabilities: match self.caps {
                    0 => wgsl_to_wgpu::ValidationOptions::default().capabilities,
                    1 => wgsl_to_wgpu::WgslCapabilities::default(),
                    _ => wgsl_to_wgpu::WgslCapabilities::empty(),
                },
            }),
        }
    }

    pub fn describe(&self) -> String {
        format!(
            "bv{}bh{}en{}se{}mvt{}fmt{}val{}{}",
            self.bytemuck_vertex as u8,
            self.bytemuck_host as u8,
            self.encase_host as u8,
            self.serde as u8,
            self.mvt,
            self.rustfmt as u8,
            self.validate as u8,
            match (self.validate, self.caps) {
                (true, 1) => "+fewcaps",
                (true, 2) => "+nocaps",
                _ => "",
            }
        )
    }
}

#[derive(Debug, Clone, Serialize, Deserialize, PartialEq, Eq, Hash)]
pub struct Job {
    pub shader: ShaderRef,
    /// `None`: `create_shader_module_embedded`; `Some(p)`: `create_shader_module(.., p, ..)`.
    pub include_path: Option<String>,
    pub options: Opts,
}

impl Job {
    pub fn describe(&self) -> String {
        format!(
            "{} {} {}",
            self.shader.describe(),
            self.include_path.as_deref().unwrap_or("<embedded>"),
            self.options.describe()
        )
    }
}

/// What a call came back with. Panics are part of the function's observable behaviour.
#[derive(Debug, Clone, Serialize, Deserialize, PartialEq, Eq)]
#[serde(tag = "kind", rename_all = "snake_case")]
pub enum Outcome {
    Ok { text: String },
    Err { variant: String, display: String, emitted: String },
    Panic { message: String },
}

impl Outcome {
    pub fn class(&self) -> &'static str {
        match self {
            Outcome::Ok { .. } => "ok",
            Outcome::Err { .. } => "err",
            Outcome::Panic { .. } => "panic",
        }
    }

    pub fn hash(&self) -> u64 {
        let mut h = crate::rng::Hasher::default();
        match self {
            Outcome::Ok { text } => {
                h.str("ok");
                h.str(text);
            }
            Outcome::Err {
                variant,
                display,
                emitted,
            } => {
                h.str("err");
                h.str(variant);
                h.str(display);
                h.str(emitted);
            }
            Outcome::Panic { message } => {
                h.str("panic");
                h.str(message);
            }
        }
        h.0
    }

    pub fn brief(&self) -> String {
        match self {
            Outcome::Ok { text } => format!("Ok({} bytes, h={:016x})", text.len(), self.hash()),
            Outcome::Err { variant, .. } => format!("Err({variant})"),
            Outcome::Panic { message } => {
                let m: String = message.chars().take(80).collect();
                format!("Panic({m})")
            }
        }
    }
}

pub fn panic_message(payload: &(dyn std::any::Any + Send)) -> String {
    if let Some(s) = payload.downcast_ref::<&'static str>() {
        s.to_string()
    } else if let Some(s) = payload.downcast_ref::<String>() {
        s.clone()
    } else {
        "<non-string panic payload>".to_string()
    }
}

/// Run one job through the public API of the library under test.
/// Sentinel panics injected by a simulator backend are re-raised to the caller.
pub fn run_job(source: &str, include_path: Option<&str>, options: Opts) -> Outcome {
    let wo = options.to_write_options();
    let result = std::panic::catch_unwind(std::panic::AssertUnwindSafe(|| match include_path {
        Some(p) => wgsl_to_wgpu::create_shader_module(source, p, wo),
        None => wgsl_to_wgpu::create_shader_module_embedded(source, wo),
    }));
    match result {
        Ok(Ok(text)) => Outcome::Ok { text },
        Ok(Err(e)) => {
            let variant = format!("{e:?}");
            let variant = variant
                .split(|c: char| !c.is_alphanumeric() && c != '_')
                .next()
                .unwrap_or("")
                .to_string();
            Outcome::Err {
                variant,
                display: format!("{e}"),
                emitted: e.emit_to_string(source),
            }
        }
        Err(payload) => {
            if payload.is::<crate::Sentinel>() {
                std::panic::resume_unwind(payload);
            }
            Outcome::Panic {
                message: panic_message(&*payload),
            }
        }
    }
}

// ---------------------------------------------------------------------------------------------
// Generators

const HOST_FIELD_TYPES: &[&str] = &[
    "vec4<f32>",
    "vec4<u32>",
    "vec4<i32>",
    "mat4x4<f32>",
    "vec2<f32>",
    "vec3<f32>",
    "f32",
    "u32",
    "i32",
    "mat3x3<f32>",
    "mat2x4<f32>",
    "array<vec4<f32>, 4>",
];

const VERTEX_FIELD_TYPES: &[&str] = &[
    "vec4<f32>",
    "vec3<f32>",
    "vec2<f32>",
    "f32",
    "u32",
    "i32",
    "vec4<u32>",
    "vec2<i32>",
    "vec3<u32>",
];

const TEXTURE_TYPES: &[&str] = &[
    "texture_2d<f32>",
    "texture_2d<u32>",
    "texture_2d<i32>",
    "texture_cube<f32>",
    "texture_2d_array<f32>",
    "texture_3d<f32>",
    "texture_depth_2d",
    "texture_storage_2d<rgba8unorm, write>",
    "texture_storage_2d<r32float, read_write>",
    "texture_multisampled_2d<f32>",
];

/// A seeded WGSL program biased towards what makes emission order and size matter:
/// many host-shareable structs reachable from several globals, several bind groups with sparse
/// binding indices, several entry points per stage, overrides, constants, vertex inputs.
/// `scale` multiplies the amount of everything (output size grows roughly linearly with it).
pub fn gen_shader(seed: u64, scale: u32) -> String {
    let mut rng = Rng::new(seed ^ 0x5EED_5AAD_E500_0001);
    let scale = scale.max(1) as usize;
    let mut out = String::new();

    let n_structs = rng.usize(2, 4 + 3 * scale);
    let n_vertex_structs = rng.usize(0, 1 + scale.min(6));
    let n_groups = rng.usize(1, 4.min(1 + scale));
    let n_overrides = rng.usize(0, 3.min(scale + 1));
    let n_consts = rng.usize(0, 2 + scale.min(8));
    let n_helpers = rng.usize(0, 3 + scale.min(6));
    let use_rts = rng.chance(120);
    let use_push = rng.chance(250);
    // Comments do not survive parsing, but the embedded SOURCE literal carries them verbatim:
    // non-ASCII text, tabs and CRLF line endings must come back exactly.
    let exotic = rng.chance(350);
    let crlf = exotic && rng.chance(300);
    if exotic {
        let _ = writeln!(out, "// 手順 {}: 法線 → 視線ベクトル — naïve façade ünïcode ✓ 😀", rng.below(1000));
        let _ = writeln!(out, "//\ttabs\tand \"quotes\" and \\backslashes\\ and 'single' ones");
    }

    // Host-shareable structs; later ones may embed earlier ones.
    let mut struct_names = Vec::new();
    for i in 0..n_structs {
        let name = format!("Hs{i}");
        let n_fields = rng.usize(1, 3 + 2 * scale.min(12));
        let _ = writeln!(out, "struct {name} {{");
        for f in 0..n_fields {
            let ty = if f == 0 {
                // every host struct starts with a vec4 so that `<global>.fl0.x` is always valid
                "vec4<f32>".to_string()
            } else if i > 0 && rng.chance(200) {
                // nested struct or array of struct
                let inner = format!("Hs{}", rng.usize(0, i - 1));
                if rng.chance(300) {
                    format!("array<{inner}, {}>", rng.usize(1, 4))
                } else {
                    inner
                }
            } else {
                rng.pick(HOST_FIELD_TYPES).to_string()
            };
            let _ = writeln!(out, "    fl{f}: {ty},");
        }
        let _ = writeln!(out, "}}");
        struct_names.push(name);
    }
    if use_rts {
        let _ = writeln!(out, "struct Rts0 {{\n    count: u32,\n    items: array<vec4<f32>>,\n}}");
    }

    // Vertex input structs.
    let mut location = 0;
    let mut vertex_structs = Vec::new();
    for i in 0..n_vertex_structs {
        let name = format!("Vin{i}");
        let n_fields = rng.usize(1, 2 + scale.min(10));
        let _ = writeln!(out, "struct {name} {{");
        for f in 0..n_fields {
            if location >= 14 {
                break;
            }
            let ty = rng.pick(VERTEX_FIELD_TYPES);
            let _ = writeln!(out, "    @location({location}) va{f}: {ty},");
            location += 1;
        }
        if rng.chance(300) {
            let builtin = if i == 0 { "vertex_index" } else { "instance_index" };
            if i < 2 {
                let _ = writeln!(out, "    @builtin({builtin}) bi{i}: u32,");
            }
        }
        let _ = writeln!(out, "}}");
        vertex_structs.push(name);
        if location >= 14 {
            break;
        }
    }
    let _ = writeln!(
        out,
        "struct VsOut {{\n    @builtin(position) pos: vec4<f32>,\n    @location(0) uv: vec2<f32>,\n}}"
    );

    // Globals.
    let mut globals: Vec<(String, String)> = Vec::new(); // (name, read expression of type f32)
    for g in 0..n_groups {
        let n_bindings = rng.usize(1, 2 + 2 * scale.min(10));
        let mut binding = 0;
        for b in 0..n_bindings {
            binding += rng.usize(0, 2); // sparse binding indices
            let name = format!("gb{g}x{b}");
            match rng.below(10) {
                0..=3 => {
                    let s = rng.pick(&struct_names);
                    let _ = writeln!(
                        out,
                        "@group({g}) @binding({binding}) var<storage, read> {name}: {s};"
                    );
                    globals.push((name.clone(), format!("{name}.fl0.x")));
                    if rng.chance(500) {
                        // a second use of the same struct through a runtime-sized array
                        binding += 1;
                        let _ = writeln!(
                            out,
                            "@group({g}) @binding({binding}) var<storage, read_write> {name}arr: array<{s}>;"
                        );
                        globals.push((format!("{name}arr"), format!("{name}arr[0].fl0.x")));
                    }
                }
                4..=5 => {
                    let s = rng.pick(&struct_names);
                    let _ = writeln!(
                        out,
                        "@group({g}) @binding({binding}) var<uniform> {name}: {s};"
                    );
                    globals.push((name.clone(), format!("{name}.fl0.x")));
                }
                6..=7 => {
                    let t = rng.pick(TEXTURE_TYPES);
                    let _ = writeln!(out, "@group({g}) @binding({binding}) var {name}: {t};");
                    globals.push((name.clone(), format!("f32(textureDimensions({name}).x)")));
                }
                8 => {
                    let cmp = rng.bool();
                    let t = if cmp { "sampler_comparison" } else { "sampler" };
                    let _ = writeln!(out, "@group({g}) @binding({binding}) var {name}: {t};");
                    // samplers are left unused: visibility NONE is a legal outcome
                }
                _ => {
                    let _ = writeln!(
                        out,
                        "@group({g}) @binding({binding}) var<storage, read_write> {name}: array<vec4<f32>>;"
                    );
                    globals.push((name.clone(), format!("{name}[0].x")));
                }
            }
            binding += 1;
        }
    }
    let anchor_group = n_groups;
    let _ = writeln!(
        out,
        "@group({anchor_group}) @binding(0) var<storage, read> anchor_arr: array<vec4<f32>>;"
    );
    if use_rts {
        let _ = writeln!(
            out,
            "@group({anchor_group}) @binding(1) var<storage, read_write> rts_buf: Rts0;"
        );
        globals.push(("rts_buf".into(), "rts_buf.items[0].x".into()));
    }
    if use_push {
        let s = rng.pick(&struct_names);
        let _ = writeln!(out, "var<push_constant> pc: {s};");
    }
    let _ = writeln!(out, "var<workgroup> wg_scratch: array<f32, 64>;");

    for i in 0..n_overrides {
        match rng.below(4) {
            0 => {
                let _ = writeln!(out, "override ov{i}: f32 = {}.5;", rng.below(9));
            }
            1 => {
                let _ = writeln!(out, "override ov{i}: bool;");
            }
            2 => {
                let _ = writeln!(out, "@id({}) override ov{i}: u32 = {}u;", 10 + i, rng.below(100));
            }
            _ => {
                let _ = writeln!(out, "override ov{i}: i32;");
            }
        }
    }
    for i in 0..n_consts {
        match rng.below(4) {
            0 => {
                let _ = writeln!(out, "const KC{i}: f32 = {}.25;", rng.below(100));
            }
            1 => {
                let _ = writeln!(out, "const KC{i}: u32 = {}u;", rng.below(1000));
            }
            2 => {
                let _ = writeln!(out, "const KC{i}: i32 = -{};", rng.below(1000));
            }
            _ => {
                let _ = writeln!(out, "const KC{i}: bool = {};", rng.bool());
            }
        }
    }

    // Helpers: each reads a few globals and may call earlier helpers (shallow).
    let mut helpers = Vec::new();
    for i in 0..n_helpers {
        let name = format!("hp{i}");
        let _ = writeln!(out, "fn {name}() -> f32 {{");
        let _ = writeln!(out, "    var acc = 0.0;");
        for _ in 0..rng.usize(0, 3) {
            if !globals.is_empty() {
                let (_, read) = rng.pick(&globals);
                let _ = writeln!(out, "    acc += {read};");
            }
        }
        if i > 0 && rng.chance(500) {
            let callee = rng.usize(0, i - 1);
            let _ = writeln!(out, "    acc += hp{callee}();");
        }
        let _ = writeln!(out, "    return acc;\n}}");
        helpers.push(name);
    }

    let body = |rng: &mut Rng, out: &mut String| {
        let _ = writeln!(out, "    var acc = 0.0;");
        for _ in 0..rng.usize(0, 3) {
            if !globals.is_empty() {
                let (_, read) = rng.pick(&globals);
                let _ = writeln!(out, "    acc += {read};");
            }
        }
        for _ in 0..rng.usize(0, 2) {
            if !helpers.is_empty() {
                let h = rng.pick(&helpers);
                let _ = writeln!(out, "    acc += {h}();");
            }
        }
    };

    // Entry points.
    let n_vs = rng.usize(0, 2 + scale.min(3));
    for i in 0..n_vs {
        let mut params = Vec::new();
        // Each vertex struct can be used by several entries; locations must not collide
        // within one entry, which holds because all structs use disjoint locations.
        for (k, vs) in vertex_structs.iter().enumerate() {
            if rng.chance(500) {
                params.push(format!("vin{k}: {vs}"));
            }
        }
        let _ = writeln!(out, "@vertex\nfn vs_entry{i}({}) -> VsOut {{", params.join(", "));
        body(&mut rng, &mut out);
        let _ = writeln!(
            out,
            "    var o: VsOut;\n    o.pos = vec4<f32>(acc);\n    o.uv = vec2<f32>(acc);\n    return o;\n}}"
        );
    }
    let n_fs = rng.usize(0, 2 + scale.min(3));
    for i in 0..n_fs {
        let targets = rng.usize(1, 3);
        if targets == 1 {
            let _ = writeln!(
                out,
                "@fragment\nfn fs_entry{i}(inp: VsOut) -> @location(0) vec4<f32> {{"
            );
            body(&mut rng, &mut out);
            let _ = writeln!(out, "    return vec4<f32>(acc);\n}}");
        } else {
            let _ = writeln!(out, "struct FsOut{i} {{");
            for t in 0..targets {
                let _ = writeln!(out, "    @location({t}) c{t}: vec4<f32>,");
            }
            let _ = writeln!(out, "}}");
            let _ = writeln!(out, "@fragment\nfn fs_entry{i}(inp: VsOut) -> FsOut{i} {{");
            body(&mut rng, &mut out);
            let _ = writeln!(out, "    var o: FsOut{i};");
            for t in 0..targets {
                let _ = writeln!(out, "    o.c{t} = vec4<f32>(acc);");
            }
            let _ = writeln!(out, "    return o;\n}}");
        }
    }
    if exotic {
        // keep non-ASCII text coming throughout a long source so that any chunk boundary of a
        // reader can fall inside a multi-byte character
        let lines = out.lines().count();
        let mut with_comments = String::with_capacity(out.len() * 2);
        for (i, line) in out.lines().enumerate() {
            with_comments.push_str(line);
            with_comments.push('\n');
            if i % 3 == 2 {
                let _ = writeln!(with_comments, "// {i}/{lines} 頂点シェーダー用の補間値 → ℝ³ · Ünïcödé · 🙂🙃");
            }
        }
        out = with_comments;
    }
    let n_cs = rng.usize(if n_vs + n_fs == 0 { 1 } else { 0 }, 1 + scale.min(3));
    for i in 0..n_cs {
        let (x, y, z) = (
            [1, 8, 64, 256][rng.usize(0, 3)],
            rng.usize(1, 4),
            rng.usize(1, 2),
        );
        let _ = writeln!(
            out,
            "@compute @workgroup_size({x}, {y}, {z})\nfn cs_entry{i}(@builtin(global_invocation_id) gid: vec3<u32>) {{"
        );
        body(&mut rng, &mut out);
        let _ = writeln!(out, "    wg_scratch[gid.x % 64u] = acc;\n}}");
    }
    if crlf {
        out = out.replace('\n', "\r\n");
    }
    out
}

pub fn sibling_shader(seed: u64, variant: u32) -> String {
    // shape from the seed
    let mut shape = Rng::new(seed ^ 0x51B1_1235_0000_0007);
    let n_values = shape.usize(2, 6);
    let n_outer = shape.usize(2, 4);
    let n_inner = shape.usize(2, 3);
    let n_items = shape.usize(1, 4);
    let n_extra = shape.usize(0, 3);
    let with_texture = shape.chance(600);
    let n_vertex = if shape.chance(700) { shape.usize(1, 5) } else { 0 };
    let workgroup = [1u32, 8, 64][shape.below(3) as usize];
    // vertex input structs in an order that is neither alphabetical nor reverse
    let mut vertex_names = vec!["MeshVertex", "SkinnedVertex", "ParticleVertex", "QuadVertex", "TextVertex", "LineVertex"];
    for i in (1..vertex_names.len()).rev() {
        vertex_names.swap(i, shape.below(i as u64 + 1) as usize);
    }
    // leaves from the variant: variants 0, 1, 2 use one scalar type everywhere, so that the type
    // arenas of those siblings line up index by index
    let mut pick = Rng::new(seed.wrapping_mul(0x9E37_79B9).wrapping_add(variant as u64) ^ 0x1EAF);
    let scalars = ["f32", "u32", "i32"];
    let mut leaf = move || -> &'static str {
        if variant < 3 {
            scalars[variant as usize]
        } else {
            scalars[pick.below(3) as usize]
        }
    };
    let mut out = String::new();
    // Head: the same for every sibling of the seed, and longer than any prefix a fingerprint
    // might look at. All variant-dependent text below has the same length in every variant, and
    // the tail (the entry points) is variant-independent again: siblings have equal length, an
    // equal beginning and an equal end.
    let _ = writeln!(out, "// Shared camera and frame constants. Keep this block in sync with the host side:");
    let _ = writeln!(out, "// the layout is mirrored by hand in the renderer, so members are only ever appended.");
    let _ = writeln!(out, "struct Common {{\n    view_proj: mat4x4<f32>,\n    origin: vec4<f32>,\n    extent: vec4<f32>,\n    frame: vec4<u32>,\n}}");
    let _ = writeln!(out, "@group(0) @binding(0) var<uniform> shared_frame: Common;");
    // Middle: the leaves.
    let _ = writeln!(out, "struct Elem {{\n    a: vec4<{}>,\n    b: vec4<{}>,\n}}", leaf(), leaf());
    let _ = writeln!(out, "struct Block {{");
    let _ = writeln!(out, "    head: vec4<{}>,", leaf());
    let _ = writeln!(out, "    values: array<vec4<{}>, {n_values}>,", leaf());
    let _ = writeln!(out, "    grid: array<array<vec4<{}>, {n_inner}>, {n_outer}>,", leaf());
    let _ = writeln!(out, "    items: array<Elem, {n_items}>,");
    for e in 0..n_extra {
        let _ = writeln!(out, "    extra{e}: vec2<{}>,", leaf());
    }
    let _ = writeln!(out, "}}");
    let _ = writeln!(out, "@group(0) @binding(1) var<uniform> block: Block;");
    let _ = writeln!(out, "@group(0) @binding(2) var<storage, read_write> out_buf: array<vec4<{}>>;", leaf());
    if with_texture {
        // same binding indices as group 0: a tie for whoever orders by binding alone
        let _ = writeln!(out, "@group(1) @binding(0) var tex: texture_2d<{}>;", leaf());
        let format = ["rgba8unorm", "rgba8snorm", "rgba8unorm"][(variant % 3) as usize];
        let _ = writeln!(out, "@group(1) @binding(1) var stex: texture_storage_2d<{format}, write>;");
    }
    let _ = writeln!(out, "const SIBLING_LIMIT: u32 = {}u;", 10 + variant % 7);
    let _ = writeln!(out, "override sibling_scale: f32 = {}.5;", variant % 5);
    // several vertex input structs that all start at @location(0): ties for whoever orders them
    // by location, size or field count
    for name in vertex_names.iter().take(n_vertex) {
        let _ = writeln!(out, "struct {name} {{\n    @location(0) p: vec4<{}>,\n    @location(1) q: vec2<{}>,\n}}", leaf(), leaf());
    }
    // Tail: entry points, the same text for every sibling of the seed.
    for (k, name) in vertex_names.iter().take(n_vertex).enumerate() {
        let _ = writeln!(out, "@vertex\nfn vs_main{k}(in: {name}) -> @builtin(position) vec4<f32> {{\n    let h = block.head;\n    return shared_frame.view_proj * vec4<f32>(sibling_scale);\n}}");
    }
    let _ = writeln!(out, "@compute @workgroup_size({workgroup})\nfn cs_main() {{\n    out_buf[0] = out_buf[1];\n    let g = block.grid[1][1];\n    let f = shared_frame.frame;\n}}");
    if with_texture {
        let _ = writeln!(out, "@fragment\nfn fs_main() -> @location(0) vec4<f32> {{\n    let t = textureLoad(tex, vec2<i32>(0, 0), 0);\n    textureStore(stex, vec2<i32>(0, 0), vec4<f32>(0.0));\n    let v = block.values[0];\n    return vec4<f32>(f32(SIBLING_LIMIT)) + shared_frame.origin;\n}}");
    } else {
        let _ = writeln!(out, "@fragment\nfn fs_main() -> @location(0) vec4<f32> {{\n    let v = block.items[0].a;\n    return vec4<f32>(f32(SIBLING_LIMIT)) + shared_frame.extent;\n}}");
    }
    out
}

pub fn bulk_shader(structs: u32, members: u32) -> String {
    let mut out = String::new();
    for s in 0..structs {
        let _ = writeln!(out, "struct Bk{s} {{");
        for m in 0..members {
            let _ = writeln!(out, "    member_{m}: vec4<f32>,");
        }
        let _ = writeln!(out, "}}\n@group({}) @binding({}) var<storage, read> bk{s}: Bk{s};", s / 16, s % 16);
    }
    let _ = writeln!(out, "@compute @workgroup_size(64)\nfn cs_main() {{\n    var t = 0.0;");
    for s in 0..structs {
        let _ = writeln!(out, "    t = t + bk{s}.member_0.x;");
    }
    let _ = writeln!(out, "}}");
    out
}

pub fn deep_shader(kind: u8, depth: u32, variant: u32) -> String {
    use crate::c20::{source, Family};
    match kind % 3 {
        0 => {
            // a chain of structs, each holding the previous one: recursion depth = `depth`
            let mut out = String::new();
            let v = variant;
            let _ = writeln!(out, "struct T{v}L0 {{\n    leaf: vec4<f32>,\n}}");
            for level in 1..=depth {
                let _ = writeln!(
                    out,
                    "struct T{v}L{level} {{\n    pad{level}: vec4<f32>,\n    inner: T{v}L{},\n}}",
                    level - 1
                );
            }
            let _ = writeln!(out, "@group(0) @binding(0) var<storage, read> deep{v}: T{v}L{depth};");
            let _ = writeln!(out, "@group(0) @binding(1) var<uniform> shallow{v}: T{v}L{};", (variant % 3).min(depth));
            let _ = writeln!(out, "@compute @workgroup_size(1)\nfn cs_main{v}() {{\n    let a = deep{v}.pad{depth}.x + shallow{v}.{}.x;\n}}",
                if (variant % 3).min(depth) == 0 { "leaf".to_string() } else { format!("pad{}", (variant % 3).min(depth)) });
            out
        }
        1 => source(&Family::Diamond {
            depth,
            fan: 2,
            kind: 2,
            placement: (variant % 6) as u8,
            pure_helpers: variant % 2 == 1,
            ptr_args: false,
        }),
        _ => source(&Family::Types {
            depth: depth.min(12),
            members: 2,
            globals: 1 + variant % 3,
            arrays: variant % 2 == 0,
        }),
    }
}

/// Sources the library must reject (or accept) identically every time.
pub const BAD_SHADERS: u64 = 11;

pub fn bad_shader(which: u32) -> String {
    match which % BAD_SHADERS as u32 {
        // several different rule violations at once: which one is reported must not depend on
        // anything but the source
        7 => "@group(0) @binding(1) var<uniform> a: vec4<f32>;\n@group(0) @binding(1) var<uniform> b: vec4<f32>;\n@group(1) @binding(4) var<uniform> c: vec4<f32>;\n@group(1) @binding(4) var<uniform> d: vec4<f32>;\n@group(1) @binding(7) var<uniform> e: vec4<f32>;\n@group(1) @binding(7) var<uniform> f: vec4<f32>;\n@fragment fn fs_main() {}".to_string(),
        8 => "@group(3) @binding(9) var<uniform> a: vec4<f32>;\n@group(3) @binding(9) var<uniform> b: vec4<f32>;\n@group(0) @binding(2) var<uniform> c: vec4<f32>;\n@group(0) @binding(2) var<uniform> d: vec4<f32>;\n@group(5) @binding(0) var<uniform> e: vec4<f32>;\n@fragment fn fs_main() {}".to_string(),
        9 => "struct S { a: f32, b: array<f32> }\nstruct T { a: f32, b: array<u32> }\n@group(0) @binding(0) var<storage, read> s: S;\n@group(0) @binding(1) var<storage, read> t: T;\n@group(0) @binding(1) var<storage, read> u: T;\n@compute @workgroup_size(1) fn main() {}".to_string(),
        10 => "fn a() -> f32 { return x1; }\nfn b() -> f32 { return x2; }\nfn c( {".to_string(),
        0 => "fn oops( { }".to_string(),
        1 => "@fragment fn fs_main() -> @location(0) vec4<f32> { return 1.0; }".to_string(),
        2 => "@group(1) @binding(0) var<uniform> a: vec4<f32>;\n@fragment fn fs_main() {}".to_string(),
        3 => "@group(0) @binding(0) var<uniform> a: vec4<f32>;\n@group(2) @binding(0) var<uniform> b: vec4<f32>;\n@fragment fn fs_main() {}".to_string(),
        4 => "@group(0) @binding(0) var<uniform> a: vec4<f32>;\n@group(0) @binding(0) var<uniform> b: vec4<f32>;\n@fragment fn fs_main() {}".to_string(),
        5 => "struct S { a: f32, b: array<f32> }\n@group(0) @binding(0) var<storage, read> s: S;\n@compute @workgroup_size(1) fn main() {}".to_string(),
        _ => "@group(0) @binding(0) var<uniform> a: f32;\n@fragment fn fs_main() { let x = undefined_thing; }".to_string(),
    }
}
