//! Known findings: /verif/known_findings.json, read-only at run time.
//!
//! An entry with status "known" turns a violation with exactly that signature into a
//! `KNOWN-FINDING:` line; an entry with status "fixed" suppresses nothing.

use serde::Deserialize;

#[derive(Debug, Clone, Deserialize)]
pub struct Finding {
    pub property: String,
    pub status: String,
    pub failure_class: String,
    /// The specific trigger (fault kind / input family) this finding is about.
    pub trigger: String,
    #[serde(default)]
    pub what: String,
    #[serde(default)]
    pub commit: Option<String>,
}

#[derive(Debug, Clone, Default, Deserialize)]
pub struct Known {
    #[serde(default)]
    pub findings: Vec<Finding>,
}

impl Known {
    pub fn load() -> Result<Known, String> {
        let path = crate::verif_dir().join("known_findings.json");
        match std::fs::read_to_string(&path) {
            Ok(text) => serde_json::from_str(&text).map_err(|e| format!("{path:?}: {e}")),
            Err(e) if e.kind() == std::io::ErrorKind::NotFound => Ok(Known::default()),
            Err(e) => Err(format!("{path:?}: {e}")),
        }
    }

    pub fn lookup(&self, property: &str, failure_class: &str, trigger: &str) -> Option<&Finding> {
        self.findings.iter().find(|f| {
            f.status == "known"
                && f.property == property
                && f.failure_class == failure_class
                && (f.trigger == trigger || f.trigger == "*")
        })
    }
}
