//! C19 — formatter choice and formatter failure never change the program (DESIGN §4).
//!
//! One run = one call of the public API with `rustfmt: true`, the real library code as the parent
//! process, the scripted model of `procsim` as the formatter child, and a plan (fault script,
//! pipe capacities, relative speeds) drawn from the run's seed. The oracle is refinement against
//! "returns Ok with the token sequence of the `rustfmt: false` program".

use crate::corpus::{self, Job, Opts, Outcome, ShaderRef};
use crate::procsim::{self, Op, ProcPlan, ProcReport, ProcStats, SimChild, SpawnPlan};
use crate::rng::{self, Hasher, Rng};
use crate::{evidence, known, tokens, Sentinel, Tier};
use serde::{Deserialize, Serialize};
use serde_json::json;
use std::collections::{BTreeMap, HashMap, HashSet};
use std::sync::atomic::{AtomicU64, Ordering};
use std::sync::{Arc, Mutex};
use wgsl_to_wgpu::verif_hooks::{self, process::ChildIo, process::SpawnSpec, Backend};

#[derive(Debug, Clone, Serialize, Deserialize, PartialEq, Eq)]
pub struct Case {
    pub job: Job,
    /// What the first formatter process of the call does.
    pub proc: ProcPlan,
    /// What the second, third, ... formatter processes of the same call do (code that retries);
    /// the last entry repeats. Empty: every process follows `proc`.
    #[serde(default)]
    pub later: Vec<ProcPlan>,
    /// Earlier calls of the same job in the same process, each with the plan of its (first)
    /// formatter process: what a previous call's formatter did must not reach into the next call
    /// (latches, leftover buffers, unreaped or reused children). Every call is judged.
    #[serde(default)]
    pub earlier_calls: Vec<ProcPlan>,
    /// Environment variables set in the run's process before the call(s): the formatter driver
    /// may fork on its surroundings (RUSTFMT, CARGO, PATH ...), every branch owes the same answer.
    #[serde(default)]
    pub env: Vec<(String, String)>,
}

#[derive(Debug, Clone, Serialize, Deserialize)]
pub struct Failure {
    pub class: String,
    pub detail: String,
    pub location: Option<String>,
}

#[derive(Debug, Clone, Serialize, Deserialize)]
pub struct Verdict {
    pub eligible: bool,
    pub kinds: Vec<String>,
    pub failure: Option<Failure>,
    /// What the call came back with, eligible or not.
    pub outcome_class: String,
    pub log_hash: u64,
    pub log: Vec<String>,
    pub stats: ProcStats,
    pub fault_fired: bool,
    pub out_len: usize,
    pub hook_points: u64,
    pub skipped: bool,
    /// processes created through the seam during the call
    pub spawns_seen: u64,
    /// more than one parent thread used the child's handles: the event order is not ours to decide
    pub multi_threaded_parent: bool,
    /// environment variables the call asked for and that were not set (env-probe seam)
    #[serde(default)]
    pub env_probes: Vec<String>,
    /// variables a second execution of the run added to the case (the verdict is that execution's)
    #[serde(default)]
    pub env_added: Vec<(String, String)>,
}

// ---------------------------------------------------------------------------------------------
// Static classification of a plan: which of the statement's fault kinds it composes, and whether
// the oracle applies (DESIGN §4.2, "deliberately outside the oracle").

pub fn classify(plan: &ProcPlan) -> (bool, Vec<&'static str>) {
    let mut kinds: Vec<&'static str> = Vec::new();
    match plan.spawn {
        SpawnPlan::Ok => {}
        SpawnPlan::NotFound | SpawnPlan::PermissionDenied => return (true, vec!["absent"]),
        SpawnPlan::Again => return (false, vec!["info:spawn_eagain"]),
        SpawnPlan::NoMem => return (false, vec!["info:spawn_enomem"]),
    }
    let mut read_all = false;
    let mut read_some = false;
    let mut stdin_closed = false;
    #[derive(PartialEq, Clone, Copy)]
    enum Q {
        None,
        Fmt,
        Other,
    }
    let mut queued = Q::None;
    let mut flushed = Q::None;
    let mut streaming = false;
    let mut slow = false;
    let mut chatty = false;
    let mut format_on_partial = false;
    // 0 = success, 1 = failure exit, 2 = killed, 3 = auto
    let mut end = 0;
    for op in &plan.script {
        match op {
            Op::Delay(t) => {
                if *t >= 1000 {
                    slow = true;
                }
            }
            Op::Read(n) => {
                if *n > 0 && !stdin_closed {
                    read_some = true;
                }
            }
            Op::ReadToEof => {
                if !stdin_closed {
                    read_all = true;
                }
            }
            Op::Format => {
                if read_all {
                    if queued == Q::None {
                        queued = Q::Fmt;
                    } else {
                        queued = Q::Other;
                    }
                } else {
                    format_on_partial = true;
                    queued = Q::Other;
                }
            }
            Op::EmitRef(p) => {
                if *p > 0 {
                    queued = Q::Other;
                }
            }
            Op::EmitGarbage(n) | Op::EmitNonUtf8(n) => {
                if *n > 0 {
                    queued = Q::Other;
                }
            }
            Op::Flush => {
                if queued != Q::None {
                    if !read_all {
                        streaming = true;
                    }
                    flushed = if queued == Q::Fmt && flushed == Q::None {
                        Q::Fmt
                    } else {
                        Q::Other
                    };
                    queued = Q::None;
                }
            }
            Op::CloseStdin => stdin_closed = true,
            Op::CloseStdout => {}
            Op::Stderr(n) => {
                if *n > 0 {
                    chatty = true;
                }
            }
            Op::Exit(c) => {
                end = if c & 0xff == 0 { 0 } else { 1 };
                break;
            }
            Op::ExitAuto => {
                end = 3;
                break;
            }
            Op::Kill(_) => {
                end = 2;
                break;
            }
        }
    }
    let reading = if read_all {
        "after_reading"
    } else if read_some {
        "partial_read"
    } else {
        "without_reading"
    };
    match end {
        1 => kinds.push(match reading {
            "after_reading" => "exit_nonzero_after_reading",
            "partial_read" => "exit_nonzero_partial_read",
            _ => "exit_nonzero_without_reading",
        }),
        2 => kinds.push(match reading {
            "after_reading" => "killed_after_reading",
            "partial_read" => "killed_partial_read",
            _ => "killed_without_reading",
        }),
        _ => {}
    }
    if flushed == Q::None && (end == 0) {
        kinds.push(match reading {
            "after_reading" => "empty_output_after_reading",
            "partial_read" => "empty_output_partial_read",
            _ => "empty_output_without_reading",
        });
    }
    if flushed == Q::Other && end != 0 && end != 3 {
        kinds.push("partial_or_foreign_output_then_failure");
    }
    let normal = flushed == Q::Fmt && !format_on_partial && (end == 0 || end == 3);
    if normal || (end == 3 && flushed == Q::None && read_all) {
        kinds.push("normal");
    }
    if slow {
        kinds.push("slow");
    }
    if chatty {
        kinds.push("chatty_stderr");
    }
    let mut eligible = true;
    if plan.short_writes {
        eligible = false;
        kinds.push("info:short_writes");
    }
    if streaming {
        eligible = false;
        kinds.push("info:streaming_formatter");
    }
    let success_end = end == 0 || end == 3;
    if success_end && flushed == Q::Other {
        eligible = false;
        kinds.push("info:lying_formatter_exit0");
    }
    if end == 3 && format_on_partial {
        eligible = false;
        kinds.push("info:format_on_partial_input");
    }
    if kinds.is_empty() {
        kinds.push("other");
    }
    (eligible, kinds)
}

// ---------------------------------------------------------------------------------------------
// Reference programs (`rustfmt: false`), computed once per distinct job.

#[derive(Clone)]
pub struct RefProgram {
    pub text: Arc<String>,
    pub tokens: Arc<Vec<String>>,
}

pub type RefCache = Mutex<HashMap<Job, Option<RefProgram>>>;

pub fn new_ref_cache() -> RefCache {
    Mutex::new(HashMap::new())
}

pub fn reference_for(cache: &RefCache, job: &Job) -> Option<RefProgram> {
    let mut key = job.clone();
    key.options.rustfmt = false;
    if let Some(hit) = cache.lock().unwrap().get(&key) {
        return hit.clone();
    }
    let source = key.shader.source();
    let outcome = corpus::run_job(&source, key.include_path.as_deref(), key.options);
    let value = match outcome {
        Outcome::Ok { text } => match tokens::lex(&text) {
            Ok(toks) => Some(RefProgram {
                text: Arc::new(text),
                tokens: Arc::new(toks),
            }),
            Err(_) => None,
        },
        _ => None,
    };
    {
        // Generated shaders are practically unique per run: keep the table small (the batch
        // workers fork per run, and a fork pays for every page of the parent).
        let mut table = cache.lock().unwrap();
        if table.len() >= 256 {
            table.retain(|job, _| !matches!(job.shader, ShaderRef::Gen { .. }));
        }
        table.insert(key, value.clone());
    }
    value
}

// ---------------------------------------------------------------------------------------------
// Backend: every spawn of the call gets a simulated child following the plan.

struct C19Backend {
    plan: Mutex<ProcPlan>,
    later: Mutex<Vec<ProcPlan>>,
    spawns_before_this_call: AtomicU64,
    reference: Arc<String>,
    children: Mutex<Vec<Arc<SimChild>>>,
    programs: Mutex<Vec<String>>,
    points: AtomicU64,
}

impl Backend for C19Backend {
    fn point(&self, _site: &'static str) {
        self.points.fetch_add(1, Ordering::Relaxed);
    }

    fn spawn(&self, spec: &SpawnSpec) -> Option<std::io::Result<Arc<dyn ChildIo>>> {
        let nth = {
            let mut programs = self.programs.lock().unwrap();
            programs.push(spec.program.to_string_lossy().into_owned());
            programs.len() - 1 - self.spawns_before_this_call.load(Ordering::Relaxed) as usize
        };
        let later = self.later.lock().unwrap();
        let plan = if nth == 0 || later.is_empty() {
            self.plan.lock().unwrap().clone()
        } else {
            later[(nth - 1).min(later.len() - 1)].clone()
        };
        drop(later);
        Some(
            procsim::spawn(&plan, spec, self.reference.clone(), None).map(|child| {
                self.children.lock().unwrap().push(child.clone());
                child as Arc<dyn ChildIo>
            }),
        )
    }
}

fn panic_class(message: &str) -> String {
    if let Some(pos) = message.find("kind: ") {
        let kind: String = message[pos + 6..]
            .chars()
            .take_while(|c| c.is_alphanumeric())
            .collect();
        return format!("panic:io:{kind}");
    }
    if message.contains("Utf8Error") || message.contains("FromUtf8Error") {
        return "panic:utf8".to_string();
    }
    let brief: String = message
        .chars()
        .take(40)
        .map(|c| if c.is_alphanumeric() { c } else { '_' })
        .collect();
    format!("panic:{brief}")
}


/// Classify what a `rustfmt: true` call came back with against the reference program.
/// `formatted`: whether a formatter is known to have produced output (None: decide from the text).
pub fn judge(
    result: std::thread::Result<Outcome>,
    reference: &RefProgram,
    formatted: Option<bool>,
) -> (String, Option<Failure>) {
    let location: Option<String> = None;
    match result {
        Err(payload) => match payload.downcast_ref::<Sentinel>() {
            Some(Sentinel::Hang(what)) => (
                what.to_string(),
                Some(Failure {
                    class: what.to_string(),
                    detail: "parent and formatter child can neither make progress".into(),
                    location: None,
                }),
            ),
            Some(Sentinel::StepCap) => (
                "step_cap".into(),
                Some(Failure {
                    class: "step_cap".into(),
                    detail: format!("more than {} parent seam calls", procsim::PARENT_OP_CAP),
                    location: None,
                }),
            ),
            other => (
                "harness_panic".into(),
                Some(Failure {
                    class: "harness".into(),
                    detail: format!("unexpected payload {other:?}"),
                    location,
                }),
            ),
        },
        Ok(Outcome::Panic { message }) => {
            let class = panic_class(&message);
            (
                class.clone(),
                Some(Failure {
                    class,
                    detail: message,
                    location,
                }),
            )
        }
        Ok(Outcome::Err { variant, display, .. }) => (
            format!("err:{variant}"),
            Some(Failure {
                class: format!("err:{variant}"),
                detail: display,
                location: None,
            }),
        ),
        Ok(Outcome::Ok { text }) => {
            if text.is_empty() {
                (
                    "result:empty".into(),
                    Some(Failure {
                        class: "result:empty".into(),
                        detail: "Ok(\"\") returned instead of the program".into(),
                        location: None,
                    }),
                )
            } else {
                let cmp = tokens::compare(&reference.tokens, &text);
                match cmp {
                    tokens::Cmp::Equal => {
                        // the unformatted fallback is one line (string literals escape newlines)
                        let formatted = formatted.unwrap_or(true) && text.contains('\n');
                        (
                            if formatted {
                                "ok:formatted".to_string()
                            } else {
                                "ok:fallback".to_string()
                            },
                            None,
                        )
                    }
                    other => (
                        format!("result:{}", other.class()),
                        Some(Failure {
                            class: format!("result:{}", other.class()),
                            detail: format!("{other:?}").chars().take(600).collect(),
                            location: None,
                        }),
                    ),
                }
            }
        }
    }
}

/// Execute one case on a fresh thread (own entropy stream, own backend).
pub fn classify_case(case: &Case) -> (bool, Vec<&'static str>) {
    let (mut eligible, mut kinds) = classify(&case.proc);
    for (i, plan) in case.later.iter().enumerate() {
        let (e, k) = classify(plan);
        eligible &= e;
        if i == 0 {
            kinds.push("then_on_retry");
            kinds.extend(k);
        }
    }
    if !case.earlier_calls.is_empty() {
        let mut earlier = Vec::new();
        for plan in &case.earlier_calls {
            let (e, k) = classify(plan);
            eligible &= e;
            earlier.extend(k);
        }
        earlier.push("then_in_a_later_call");
        earlier.extend(kinds);
        kinds = earlier;
    }
    (eligible, kinds)
}

pub fn run_case(case: &Case, reference: Option<&RefProgram>, want_log: bool) -> Verdict {
    let (eligible, kinds) = classify_case(case);
    let kinds: Vec<String> = kinds.into_iter().map(|k| k.to_string()).collect();
    let Some(reference) = reference else {
        return Verdict {
            eligible,
            kinds,
            failure: None,
            outcome_class: "skipped:no_reference_program".into(),
            log_hash: 0,
            log: vec![],
            stats: ProcStats::default(),
            fault_fired: false,
            out_len: 0,
            hook_points: 0,
            skipped: true,
            spawns_seen: 0,
            multi_threaded_parent: false,
            env_probes: vec![],
            env_added: vec![],
        };
    };
    let case = case.clone();
    let reference = reference.clone();
    let entropy = rng::mix(rng::fnv1a(case.job.describe().as_bytes()), &[19]);
    let handle = std::thread::Builder::new()
        .stack_size(32 << 20)
        .spawn(move || {
            crate::seams::set_thread_entropy(Some(entropy));
            // one run is one process: its environment is ours to set
            for (name, value) in &case.env {
                std::env::set_var(name, value);
            }
            crate::seams::set_env_probe_recording(true);
            let backend = Arc::new(C19Backend {
                plan: Mutex::new(case.proc.clone()),
                later: Mutex::new(case.later.clone()),
                spawns_before_this_call: AtomicU64::new(0),
                reference: reference.text.clone(),
                children: Mutex::new(Vec::new()),
                programs: Mutex::new(Vec::new()),
                points: AtomicU64::new(0),
            });
            verif_hooks::install(Some(backend.clone() as Arc<dyn Backend>));
            {
                // Polling loops of the code under test (try_wait + sleep) cost no real time: a
                // sleep advances the virtual clock of the formatter processes instead.
                let backend = backend.clone();
                crate::seams::set_sleep_hook(Some(Box::new(move |ns| {
                    let children: Vec<Arc<SimChild>> = backend.children.lock().unwrap().clone();
                    for child in children {
                        child.parent_slept(ns);
                    }
                    // Helper threads of the code under test run in real time: a poller that
                    // sleeps virtually must still give them a moment, or every poll loop would
                    // run out before they have moved at all.
                    if crate::seams::threads_created_by_current_thread() > 0 {
                        let real = std::time::Duration::from_nanos(ns.min(200_000));
                        let ts = libc::timespec {
                            tv_sec: 0,
                            tv_nsec: real.as_nanos() as _,
                        };
                        unsafe {
                            libc::syscall(libc::SYS_nanosleep, &ts, std::ptr::null_mut::<libc::timespec>());
                        }
                    }
                })));
            }
            let source = case.job.shader.source();
            let mut options = case.job.options;
            options.rustfmt = true;
            let _ = crate::take_panic_location();
            // earlier calls in the same process, each judged like the main one
            let mut earlier_failure: Option<(usize, String, Option<Failure>)> = None;
            for (k, plan) in case.earlier_calls.iter().enumerate() {
                *backend.plan.lock().unwrap() = plan.clone();
                *backend.later.lock().unwrap() = Vec::new();
                backend
                    .spawns_before_this_call
                    .store(backend.programs.lock().unwrap().len() as u64, Ordering::Relaxed);
                let r = std::panic::catch_unwind(std::panic::AssertUnwindSafe(|| {
                    corpus::run_job(&source, case.job.include_path.as_deref(), options)
                }));
                let (class, failure) = judge(r, &reference, None);
                if failure.is_some() && earlier_failure.is_none() {
                    earlier_failure = Some((k, class, failure));
                }
            }
            *backend.plan.lock().unwrap() = case.proc.clone();
            *backend.later.lock().unwrap() = case.later.clone();
            backend
                .spawns_before_this_call
                .store(backend.programs.lock().unwrap().len() as u64, Ordering::Relaxed);
            let result = std::panic::catch_unwind(std::panic::AssertUnwindSafe(|| {
                corpus::run_job(&source, case.job.include_path.as_deref(), options)
            }));
            verif_hooks::install(None);
            crate::seams::set_sleep_hook(None);
            let location = crate::take_panic_location();
            let reports: Vec<ProcReport> = backend
                .children
                .lock()
                .unwrap()
                .iter()
                .map(|c| c.snapshot())
                .collect();
            let programs = backend.programs.lock().unwrap().clone();
            let points = backend.points.load(Ordering::Relaxed);
            let env_probes = crate::seams::take_env_probes();
            crate::seams::set_env_probe_recording(false);
            (result, location, reports, programs, points, reference, earlier_failure, env_probes)
        })
        .expect("spawn run thread");
    let (result, location, reports, programs, points, reference, earlier_failure, env_probes) =
        handle.join().expect("run thread itself must not panic");

    let mut stats = ProcStats::default();
    let mut hasher = Hasher::default();
    let mut log = Vec::new();
    for prog in &programs {
        hasher.str(prog);
    }
    if matches!(case_spawn(&reports, &programs), SpawnSeen::ErrorInjected) {
        stats.spawn_errors += programs.len() as u64;
    }
    for r in &reports {
        stats.add(&r.stats);
        procsim::hash_events(&mut hasher, &r.log);
        if want_log {
            log.extend(procsim::format_events(&r.log));
        }
    }

    let out_len = match &result {
        Ok(Outcome::Ok { text }) => text.len(),
        _ => 0,
    };
    let (mut outcome_class, mut failure) = judge(result, &reference, Some(stats.format_ok > 0));
    if let Some((k, class, f)) = earlier_failure {
        // an earlier call of the sequence already broke the oracle: report that one
        outcome_class = class;
        failure = f.map(|mut f| {
            f.detail = format!("in earlier call #{k} of the same process: {}", f.detail);
            f
        });
    }
    if let Some(f) = failure.as_mut() {
        if f.location.is_none() && f.class.starts_with("panic:") {
            f.location = location;
        }
    }
    hasher.str(&outcome_class);
    let stats_threads = stats.parent_threads_max;
    let fault_fired = stats.spawn_errors > 0
        || stats.child_exit_nonzero > 0
        || stats.child_killed > 0
        || stats.child_exit_zero_empty > 0
        || stats.epipe > 0
        || stats.epipe_mid_write > 0;
    Verdict {
        eligible,
        kinds,
        failure: if eligible { failure } else { None },
        outcome_class,
        log_hash: hasher.0,
        log,
        stats,
        fault_fired,
        out_len,
        hook_points: points,
        skipped: false,
        spawns_seen: programs.len() as u64,
        multi_threaded_parent: stats_threads > 1,
        env_probes,
        env_added: vec![],
    }
}

enum SpawnSeen {
    Ok,
    ErrorInjected,
}

fn case_spawn(reports: &[ProcReport], programs: &[String]) -> SpawnSeen {
    if !programs.is_empty() && reports.is_empty() {
        SpawnSeen::ErrorInjected
    } else {
        SpawnSeen::Ok
    }
}

// ---------------------------------------------------------------------------------------------
// Isolation: one run, one process. Code under test may keep process-wide state (a "formatter is
// missing" memo, a cache): runs must not see each other's, or verdicts would depend on run order.

/// Real seconds one run may take (a simulated run needs milliseconds, the largest module about
/// two seconds): code that blocks on something of its own - a condition variable, a lock, a real
/// sleep - is not seen by the process model and ends here.
pub const RUN_WALL_LIMIT_S: u32 = 25;

fn crashed_verdict(case: &Case, what: String) -> Verdict {
    let (eligible, kinds) = classify_case(case);
    let class = what.split(' ').next().unwrap_or("crash").to_string();
    Verdict {
        eligible,
        kinds: kinds.into_iter().map(|k| k.to_string()).collect(),
        failure: eligible.then(|| Failure {
            class: class.clone(),
            detail: what.clone(),
            location: None,
        }),
        outcome_class: class,
        log_hash: 0,
        log: vec![],
        stats: ProcStats::default(),
        fault_fired: false,
        out_len: 0,
        hook_points: 0,
        skipped: false,
        spawns_seen: 0,
        multi_threaded_parent: false,
        env_probes: vec![],
        env_added: vec![],
    }
}

/// Run the case in a forked child of the calling process. Only call this from a process that has
/// no other running threads (the batch worker processes are single-threaded).
pub fn run_case_forked(case: &Case, reference: Option<&RefProgram>, want_log: bool) -> Verdict {
    use std::os::unix::io::FromRawFd;
    let mut fds = [0 as libc::c_int; 2];
    if unsafe { libc::pipe(fds.as_mut_ptr()) } != 0 {
        return run_case(case, reference, want_log);
    }
    let pid = unsafe { libc::fork() };
    if pid < 0 {
        unsafe {
            libc::close(fds[0]);
            libc::close(fds[1]);
        }
        return run_case(case, reference, want_log);
    }
    if pid == 0 {
        // child: run, report through the pipe, leave without running any destructor or atexit
        unsafe {
            libc::close(fds[0]);
            libc::alarm(RUN_WALL_LIMIT_S);
        }
        let v = run_case(case, reference, want_log);
        let bytes = serde_json::to_vec(&v).unwrap_or_default();
        let mut off = 0;
        while off < bytes.len() {
            let r = unsafe {
                libc::write(fds[1], bytes[off..].as_ptr() as *const libc::c_void, bytes.len() - off)
            };
            if r <= 0 {
                break;
            }
            off += r as usize;
        }
        unsafe { libc::_exit(0) }
    }
    unsafe { libc::close(fds[1]) };
    let mut bytes = Vec::new();
    {
        use std::io::Read as _;
        let mut f = unsafe { std::fs::File::from_raw_fd(fds[0]) };
        let _ = f.read_to_end(&mut bytes);
    }
    let mut status: libc::c_int = 0;
    unsafe { libc::waitpid(pid, &mut status, 0) };
    match serde_json::from_slice::<Verdict>(&bytes) {
        Ok(v) => v,
        Err(_) => {
            let sig = status & 0x7f;
            if sig == libc::SIGALRM {
                crashed_verdict(case, format!("hang:wall_clock the call did not return within {RUN_WALL_LIMIT_S} s of real time (blocked outside the simulated process model)"))
            } else {
                crashed_verdict(case, format!("crash:process_died wait status {status:#x} (signal {sig}): the call took the whole process down"))
            }
        }
    }
}

/// Run the case in a fresh process of this binary (`c19-one`): slower than forking, usable from
/// anywhere (minimisation, replay, self-checks).
pub fn run_case_isolated(case: &Case, want_log: bool) -> Verdict {
    use std::io::Write as _;
    let exe = match std::env::current_exe() {
        Ok(e) => e,
        Err(e) => return crashed_verdict(case, format!("harness cannot find its executable: {e}")),
    };
    let child = std::process::Command::new(exe)
        .arg("c19-one")
        .arg(if want_log { "log" } else { "nolog" })
        .stdin(std::process::Stdio::piped())
        .stdout(std::process::Stdio::piped())
        .stderr(std::process::Stdio::null())
        .spawn();
    let mut child = match child {
        Ok(c) => c,
        Err(e) => return crashed_verdict(case, format!("harness cannot start c19-one: {e}")),
    };
    if let Some(mut stdin) = child.stdin.take() {
        let _ = stdin.write_all(serde_json::to_string(case).unwrap_or_default().as_bytes());
    }
    match child.wait_with_output() {
        Ok(out) => match serde_json::from_slice::<Verdict>(&out.stdout) {
            Ok(v) => v,
            Err(_) => crashed_verdict(case, format!("crash:process_died {:?}: the call took the whole process down", out.status)),
        },
        Err(e) => crashed_verdict(case, format!("harness wait: {e}")),
    }
}

/// `wgsl-sim c19-one log|nolog`: case on stdin, verdict on stdout.
pub fn one_main(args: &[String]) -> i32 {
    use std::io::Read as _;
    let mut text = String::new();
    if std::io::stdin().read_to_string(&mut text).is_err() {
        return 2;
    }
    let case: Case = match serde_json::from_str(&text) {
        Ok(c) => c,
        Err(_) => return 2,
    };
    unsafe { libc::alarm(RUN_WALL_LIMIT_S) };
    let cache = new_ref_cache();
    let reference = reference_for(&cache, &case.job);
    let v = run_case(&case, reference.as_ref(), args.first().map(|a| a == "log").unwrap_or(false));
    println!("{}", serde_json::to_string(&v).unwrap_or_default());
    0
}

/// `wgsl-sim c19-worker sys|rnd <seed> <n> <w> <W>`: the runs with index ≡ w (mod W), each in a
/// forked child; one line `V <index> <verdict json>` per run on stdout.
pub fn worker_main(args: &[String]) -> i32 {
    use std::io::Write as _;
    let num = |i: usize| args.get(i).and_then(|s| s.parse::<u64>().ok());
    let (Some(mode), Some(seed), Some(n), Some(w), Some(stride)) =
        (args.first(), num(1), num(2), num(3), num(4))
    else {
        return 2;
    };
    let sys = if mode == "sys" { systematic_cases() } else { vec![] };
    let cache = new_ref_cache();
    let stdout = std::io::stdout();
    let mut i = w;
    while i < n {
        let case = if mode == "sys" {
            sys[i as usize].clone()
        } else {
            case_for_run(seed, i)
        };
        let reference = reference_for(&cache, &case.job);
        let ref_len = reference.as_ref().map(|r| r.text.len()).unwrap_or(0);
        let mut v = run_case_forked(&case, reference.as_ref(), false);
        if v.failure.is_none() && !v.env_probes.is_empty() {
            // The driver asked its surroundings for variables that are not set: the same run
            // once more with them set. If that execution fails, it is the verdict.
            let mut with_env = case.clone();
            let added: Vec<(String, String)> = v
                .env_probes
                .iter()
                .filter(|name| !case.env.iter().any(|(k, _)| k == *name))
                .map(|name| (name.clone(), "1".to_string()))
                .collect();
            with_env.env.extend(added.iter().cloned());
            let mut second = run_case_forked(&with_env, reference.as_ref(), false);
            if second.failure.is_some() {
                second.env_added = added;
                v = second;
            }
        }
        let mut out = stdout.lock();
        if writeln!(out, "V {i} {ref_len} {}", serde_json::to_string(&v).unwrap_or_default()).is_err() {
            return 0; // the driver has seen enough
        }
        let _ = out.flush();
        i += stride;
    }
    0
}

// ---------------------------------------------------------------------------------------------
// Plan generation

const CAPS: &[usize] = &[1, 64, 4096, 65536, 1 << 20];
/// A module whose bindings exceed a megabyte (with the bytemuck layout assertions).
pub const HUGE: ShaderRef = ShaderRef::Bulk {
    structs: 48,
    members: 200,
};
const CHUNKS: &[usize] = &[1, 7, 512, 4096, 65536];
const EXIT_CODES: &[i32] = &[1, 2, 101, 127, 255];
const SIGNALS: &[i32] = &[libc::SIGKILL, libc::SIGTERM, libc::SIGSEGV, libc::SIGABRT, libc::SIGPIPE];
const DELAYS: &[u64] = &[1, 10, 1000, 1_000_000, 1_000_000_000];

fn small_jobs() -> Vec<ShaderRef> {
    corpus::REPO_SHADERS
        .iter()
        .map(|p| ShaderRef::Repo { path: p.to_string() })
        .collect()
}

/// How much of its output a failing formatter gets out: cut anywhere, or (one time in three) cut
/// at the end of a top-level item, so that what it printed is a complete Rust file, only shorter.
fn partial_output(rng: &mut Rng) -> u32 {
    let permille = rng.range(1, 999) as u32;
    if rng.chance(350) {
        1000 + permille
    } else {
        permille
    }
}

fn maybe_delay(rng: &mut Rng, script: &mut Vec<Op>, permille: u64) {
    if rng.chance(permille) {
        script.push(Op::Delay(*rng.pick(DELAYS)));
    }
}

fn read_prefix(rng: &mut Rng, script: &mut Vec<Op>) {
    for _ in 0..rng.usize(0, 2) {
        let n = match rng.below(5) {
            0 => 1,
            1 => rng.usize(2, 100),
            2 => rng.usize(4000, 4200),
            3 => rng.usize(65000, 66000),
            _ => rng.usize(1, 300_000),
        };
        script.push(Op::Read(n));
        maybe_delay(rng, script, 300);
    }
}

pub fn gen_case(rng: &mut Rng) -> Case {
    let mut proc = ProcPlan {
        spawn: SpawnPlan::Ok,
        script: Vec::new(),
        stdin_cap: *rng.pick(CAPS),
        stdout_cap: *rng.pick(CAPS),
        chunk: *rng.pick(CHUNKS),
        op_cost: *rng.pick(&[0u64, 1, 1, 10, 1000]),
        parent_costs: (0..rng.usize(1, 4))
            .map(|_| *rng.pick(&[0u64, 1, 1, 5, 100, 1_000_000]))
            .collect(),
        short_writes: false,
        exit_lag: *rng.pick(&[0u64, 0, 0, 1, 3, 50]),
        read_max: *rng.pick(&[0usize, 0, 0, 1, 3, 1000, 8191, 8193]),
    };
    let tiny = proc.stdin_cap < 64 || proc.stdout_cap < 64 || proc.chunk < 64;
    let shader = if tiny || rng.chance(500) {
        rng.pick(&small_jobs()).clone()
    } else {
        let scale = match rng.below(10) {
            0..=4 => rng.range(1, 3),
            5..=7 => rng.range(4, 8),
            _ => rng.range(9, 24),
        } as u32;
        ShaderRef::Gen {
            seed: rng.below(1 << 20),
            scale,
        }
    };
    let mut options = Opts::random(rng);
    options.rustfmt = true;
    options.validate = rng.chance(150);
    if rng.chance(700) {
        // keep most jobs free of the by-design panics around runtime-sized arrays
        options.encase_host = true;
        options.bytemuck_host = false;
    }
    let include_path = if rng.chance(250) {
        Some("shader.wgsl".to_string())
    } else {
        None
    };

    let s = &mut proc.script;
    match rng.below(100) {
        // normal formatter, possibly slow, reading in pieces
        0..=19 => {
            maybe_delay(rng, s, 300);
            read_prefix(rng, s);
            s.push(Op::ReadToEof);
            maybe_delay(rng, s, 300);
            s.push(Op::Format);
            maybe_delay(rng, s, 300);
            s.push(Op::Flush);
            maybe_delay(rng, s, 300);
            s.push(Op::ExitAuto);
        }
        // exits != 0 after reading everything (with or without having printed something)
        20..=31 => {
            maybe_delay(rng, s, 200);
            read_prefix(rng, s);
            s.push(Op::ReadToEof);
            maybe_delay(rng, s, 200);
            match rng.below(4) {
                0 => {
                    s.push(Op::Format);
                    s.push(Op::Flush);
                }
                1 => {
                    s.push(Op::EmitRef(partial_output(rng)));
                    s.push(Op::Flush);
                    if rng.chance(400) {
                        s.push(Op::CloseStdout);
                        s.push(Op::Delay(*rng.pick(DELAYS)));
                    }
                }
                _ => {}
            }
            maybe_delay(rng, s, 200);
            s.push(Op::Exit(*rng.pick(EXIT_CODES)));
        }
        // exits != 0 without reading
        32..=46 => {
            maybe_delay(rng, s, 400);
            if rng.chance(200) {
                s.push(Op::CloseStdin);
                maybe_delay(rng, s, 500);
            }
            s.push(Op::Exit(*rng.pick(EXIT_CODES)));
        }
        // reads part of the input, then fails or is killed
        47..=61 => {
            maybe_delay(rng, s, 200);
            read_prefix(rng, s);
            let n = rng.usize(1, 200_000);
            s.push(Op::Read(n));
            maybe_delay(rng, s, 300);
            if rng.bool() {
                s.push(Op::Exit(*rng.pick(EXIT_CODES)));
            } else {
                s.push(Op::Kill(*rng.pick(SIGNALS)));
            }
        }
        // killed by a signal: before reading, after reading, in the middle of its output
        62..=73 => {
            maybe_delay(rng, s, 300);
            match rng.below(3) {
                0 => {}
                1 => {
                    s.push(Op::ReadToEof);
                    maybe_delay(rng, s, 300);
                }
                _ => {
                    s.push(Op::ReadToEof);
                    s.push(Op::EmitRef(rng.range(1, 1000) as u32));
                    s.push(Op::Flush);
                    if rng.chance(400) {
                        // stdout reaches EOF well before the process is gone
                        s.push(Op::CloseStdout);
                        s.push(Op::Delay(*rng.pick(DELAYS)));
                    }
                    maybe_delay(rng, s, 300);
                }
            }
            s.push(Op::Kill(*rng.pick(SIGNALS)));
        }
        // prints nothing, exits 0
        74..=85 => {
            maybe_delay(rng, s, 300);
            match rng.below(4) {
                0 => {}
                1 => s.push(Op::ReadToEof),
                2 => s.push(Op::Read(rng.usize(1, 100_000))),
                _ => {
                    s.push(Op::CloseStdout);
                    s.push(Op::ReadToEof);
                }
            }
            maybe_delay(rng, s, 300);
            s.push(Op::Exit(0));
        }
        // formatter missing
        86..=93 => {
            proc.spawn = if rng.bool() {
                SpawnPlan::NotFound
            } else {
                SpawnPlan::PermissionDenied
            };
        }
        // informational sub-configuration: outside the oracle, outcomes only counted
        _ => match rng.below(6) {
            0 => {
                s.push(Op::ReadToEof);
                s.push(Op::EmitGarbage(rng.usize(1, 5000)));
                s.push(Op::Flush);
                s.push(Op::Exit(0));
            }
            1 => {
                s.push(Op::ReadToEof);
                s.push(Op::EmitNonUtf8(rng.usize(1, 5000)));
                s.push(Op::Flush);
                s.push(Op::Exit(0));
            }
            2 => {
                s.push(Op::ReadToEof);
                s.push(Op::EmitRef(partial_output(rng)));
                s.push(Op::Flush);
                s.push(Op::Exit(0));
            }
            3 => {
                // streaming formatter: writes before it has read everything
                s.push(Op::Read(rng.usize(1, 1000)));
                s.push(Op::EmitRef(1000));
                s.push(Op::Flush);
                s.push(Op::ReadToEof);
                s.push(Op::Exit(0));
            }
            4 => {
                proc.spawn = if rng.bool() {
                    SpawnPlan::Again
                } else {
                    SpawnPlan::NoMem
                };
            }
            _ => {
                proc.short_writes = true;
                s.push(Op::ReadToEof);
                s.push(Op::Format);
                s.push(Op::Flush);
                s.push(Op::ExitAuto);
            }
        },
    }
    // A formatter talks on stderr: a short warning, or pages of errors, at any point.
    if proc.spawn == SpawnPlan::Ok && rng.chance(250) {
        let n = *rng.pick(&[10usize, 500, 5000, 70_000, 300_000]);
        let at = rng.usize(0, proc.script.len().saturating_sub(1));
        let at = if rng.chance(400) { 0 } else { at };
        proc.script.insert(at.min(proc.script.len()), Op::Stderr(n));
    }
    // Code that retries gets a second formatter process: usually a healthy one, sometimes one
    // that prints nothing, sometimes another failure.
    let mut later = Vec::new();
    if rng.chance(300) {
        let mut second = ProcPlan::well_behaved();
        second.stdin_cap = proc.stdin_cap;
        second.stdout_cap = proc.stdout_cap;
        second.chunk = proc.chunk;
        second.op_cost = proc.op_cost;
        second.parent_costs = proc.parent_costs.clone();
        match rng.below(10) {
            0..=5 => {}
            6..=7 => second.script = vec![Op::ReadToEof, Op::Exit(0)],
            8 => second.script = vec![Op::ReadToEof, Op::EmitRef(partial_output(rng)), Op::Flush, Op::Kill(libc::SIGKILL)],
            _ => second.script = vec![Op::Exit(1)],
        }
        later.push(second);
    }
    // One run in eight happens in different surroundings: variables a formatter driver might
    // consult. The simulated formatter answers whatever program is started.
    let mut env: Vec<(String, String)> = Vec::new();
    if rng.chance(125) {
        const MENU: &[(&str, &[&str])] = &[
            ("RUSTFMT", &["rustfmt", "/nonexistent/bin/rustfmt", "my rustfmt --wrapper", ""]),
            ("CARGO", &["/nonexistent/bin/cargo", "cargo"]),
            ("RUSTUP_TOOLCHAIN", &["nightly-2020-01-01", "stable"]),
            ("PATH", &["", "/nonexistent"]),
            ("HOME", &["/nonexistent", ""]),
            ("CARGO_MANIFEST_DIR", &["/nonexistent/manifest"]),
            ("OUT_DIR", &["/nonexistent/out"]),
            ("CI", &["true", "1"]),
            ("TERM", &["dumb"]),
            ("NO_COLOR", &["1"]),
            ("RUST_BACKTRACE", &["1", "full"]),
            ("RUST_LOG", &["trace"]),
        ];
        for _ in 0..rng.usize(1, 3) {
            let (name, values) = rng.pick(MENU);
            if !env.iter().any(|(k, _)| k == name) {
                env.push((name.to_string(), rng.pick(values).to_string()));
            }
        }
    }
    // One run in six is a sequence of calls in one process: one or two earlier calls whose
    // formatter misbehaves (or not), then the call described above.
    let mut earlier_calls = Vec::new();
    if rng.chance(170) {
        // mostly one or two earlier calls; now and then half a dozen (what leaks a little per
        // failed call - a slot, a handle, a thread - runs out only after several)
        let earlier = if rng.chance(200) { rng.usize(4, 7) } else { rng.usize(1, 2) };
        // a long sequence is often the same misfortune again and again (the formatter is simply
        // not installed, or always fails the same way)
        let same_every_time = (earlier > 2 && rng.chance(600)).then(|| rng.below(8));
        for _ in 0..earlier {
            let mut plan = ProcPlan::well_behaved();
            plan.stdin_cap = proc.stdin_cap;
            plan.stdout_cap = proc.stdout_cap;
            plan.chunk = proc.chunk;
            match same_every_time.unwrap_or_else(|| rng.below(8)) {
                0 => plan.spawn = SpawnPlan::NotFound,
                1 => plan.script = vec![Op::Exit(1)],
                2 => plan.script = vec![Op::ReadToEof, Op::Exit(0)],
                3 => plan.script = vec![Op::ReadToEof, Op::EmitRef(partial_output(rng)), Op::Flush, Op::Kill(libc::SIGKILL)],
                4 => plan.script = vec![Op::Read(rng.usize(1, 5000)), Op::Kill(libc::SIGTERM)],
                5 => plan.script = vec![Op::ReadToEof, Op::Stderr(300), Op::Exit(2)],
                _ => {}
            }
            earlier_calls.push(plan);
        }
    }
    Case {
        job: Job {
            shader,
            include_path,
            options,
        },
        proc,
        later,
        earlier_calls,
        env,
    }
}

/// Every fault class x {child first, parent first, interleaved} x {capacity below, above the
/// output size} x two shaders, independent of the seed (DESIGN §4.2).
pub fn systematic_cases() -> Vec<Case> {
    let shaders = [
        ShaderRef::Repo {
            path: "wgsl_to_wgpu/src/data/fragment_simple.wgsl".into(),
        },
        ShaderRef::Gen { seed: 7, scale: 10 },
    ];
    let scripts: Vec<(SpawnPlan, Vec<Op>)> = vec![
        (SpawnPlan::NotFound, vec![]),
        (SpawnPlan::PermissionDenied, vec![]),
        (SpawnPlan::Ok, vec![Op::ReadToEof, Op::Format, Op::Flush, Op::ExitAuto]),
        (SpawnPlan::Ok, vec![Op::ReadToEof, Op::Exit(1)]),
        (SpawnPlan::Ok, vec![Op::ReadToEof, Op::Format, Op::Flush, Op::Exit(1)]),
        (SpawnPlan::Ok, vec![Op::ReadToEof, Op::EmitRef(500), Op::Flush, Op::Exit(101)]),
        // the same with the cut at the end of a top-level item: what was printed parses
        (SpawnPlan::Ok, vec![Op::ReadToEof, Op::EmitRef(1300), Op::Flush, Op::Exit(1)]),
        (SpawnPlan::Ok, vec![Op::ReadToEof, Op::EmitRef(1600), Op::Flush, Op::Kill(libc::SIGKILL)]),
        (SpawnPlan::Ok, vec![Op::Exit(1)]),
        (SpawnPlan::Ok, vec![Op::Exit(127)]),
        (SpawnPlan::Ok, vec![Op::CloseStdin, Op::Delay(1000), Op::Exit(2)]),
        (SpawnPlan::Ok, vec![Op::Read(100), Op::Exit(1)]),
        (SpawnPlan::Ok, vec![Op::Read(5000), Op::Kill(libc::SIGKILL)]),
        (SpawnPlan::Ok, vec![Op::Kill(libc::SIGKILL)]),
        (SpawnPlan::Ok, vec![Op::Kill(libc::SIGSEGV)]),
        (SpawnPlan::Ok, vec![Op::ReadToEof, Op::Kill(libc::SIGTERM)]),
        (
            SpawnPlan::Ok,
            vec![Op::ReadToEof, Op::EmitRef(300), Op::Flush, Op::Kill(libc::SIGKILL)],
        ),
        (
            SpawnPlan::Ok,
            vec![Op::ReadToEof, Op::EmitRef(300), Op::Flush, Op::CloseStdout, Op::Delay(1000), Op::Kill(libc::SIGKILL)],
        ),
        (
            SpawnPlan::Ok,
            vec![Op::ReadToEof, Op::EmitRef(900), Op::Flush, Op::CloseStdout, Op::Delay(1_000_000), Op::Exit(1)],
        ),
        (SpawnPlan::Ok, vec![Op::Stderr(300_000), Op::ReadToEof, Op::Exit(1)]),
        (SpawnPlan::Ok, vec![Op::Stderr(300_000), Op::Exit(1)]),
        (SpawnPlan::Ok, vec![Op::ReadToEof, Op::Stderr(300_000), Op::Exit(1)]),
        (
            SpawnPlan::Ok,
            vec![Op::ReadToEof, Op::Stderr(200), Op::Format, Op::Flush, Op::Stderr(70_000), Op::ExitAuto],
        ),
        (SpawnPlan::Ok, vec![Op::ReadToEof, Op::Exit(0)]),
        (SpawnPlan::Ok, vec![Op::Exit(0)]),
        (SpawnPlan::Ok, vec![Op::Read(10), Op::Exit(0)]),
        (SpawnPlan::Ok, vec![Op::CloseStdout, Op::ReadToEof, Op::Exit(0)]),
        (
            SpawnPlan::Ok,
            vec![
                Op::Delay(1_000_000_000),
                Op::ReadToEof,
                Op::Delay(1_000_000_000),
                Op::Format,
                Op::Flush,
                Op::Delay(1_000_000_000),
                Op::ExitAuto,
            ],
        ),
    ];
    // (op_cost, parent_costs, leading child delay)
    let timings: [(u64, Vec<u64>, Option<u64>); 3] = [
        (0, vec![1_000_000], None),          // child first: it does everything it can at once
        (1, vec![1], Some(1_000_000_000)),   // parent first: the child wakes up very late
        (3, vec![1, 5, 2], None),            // interleaved
    ];
    let mut out = Vec::new();
    // One module whose bindings exceed a megabyte: internal size limits of the code under test
    // (read caps, length fields, sanity limits) sit well above the 64 KiB of a pipe buffer.
    for (script, cap) in [
        (vec![Op::ReadToEof, Op::Format, Op::Flush, Op::ExitAuto], 65536usize),
        (vec![Op::ReadToEof, Op::Format, Op::Flush, Op::ExitAuto], 1 << 20),
        (vec![Op::ReadToEof, Op::EmitRef(950), Op::Flush, Op::Kill(libc::SIGKILL)], 65536),
    ] {
        let mut options = Opts::plain();
        options.rustfmt = true;
        options.bytemuck_host = true;
        out.push(Case {
            earlier_calls: vec![],
            env: vec![],
            later: vec![],
            job: Job {
                shader: HUGE,
                include_path: None,
                options,
            },
            proc: ProcPlan {
                script,
                stdin_cap: cap,
                stdout_cap: cap,
                chunk: 65536,
                ..ProcPlan::well_behaved()
            },
        });
    }
    // Non-ASCII text at every byte offset: whatever fixed-size pieces the code under test cuts its
    // input or the formatter's output into, a cut lands inside a character.
    for pad in 0..3u32 {
        for (chunk, read_max) in [(65536usize, 0usize), (4096, 8192)] {
            let mut options = Opts::plain();
            options.rustfmt = true;
            out.push(Case {
                earlier_calls: vec![],
                env: vec![],
                later: vec![],
                job: Job {
                    shader: ShaderRef::Dense { kb: 200, pad },
                    include_path: None,
                    options,
                },
                proc: ProcPlan {
                    chunk,
                    read_max,
                    ..ProcPlan::well_behaved()
                },
            });
        }
    }
    for shader in &shaders {
        for (spawn, script) in &scripts {
            for (op_cost, parent_costs, lead) in &timings {
                for cap in [64usize, 1 << 20] {
                    let mut s = Vec::new();
                    if let Some(d) = lead {
                        s.push(Op::Delay(*d));
                    }
                    s.extend(script.iter().cloned());
                    let mut options = Opts::plain();
                    options.rustfmt = true;
                    options.bytemuck_host = true;
                    let retry_variant = cap == 64 && *op_cost == 3;
                    out.push(Case {
                        earlier_calls: vec![],
                        env: vec![],
                        later: if retry_variant {
                            // the interleaved small-capacity variant doubles as the "flaky formatter"
                            // block: whatever the first process did, a second one would be healthy
                            vec![ProcPlan::well_behaved()]
                        } else {
                            vec![]
                        },
                        job: Job {
                            shader: shader.clone(),
                            include_path: None,
                            options,
                        },
                        proc: ProcPlan {
                            spawn: *spawn,
                            script: s,
                            stdin_cap: cap,
                            stdout_cap: cap,
                            chunk: 4096,
                            op_cost: *op_cost,
                            parent_costs: parent_costs.clone(),
                            short_writes: false,
                            exit_lag: if cap == 64 { 0 } else { 2 },
                            read_max: if *op_cost == 3 { 4097 } else { 0 },
                        },
                    });
                }
            }
        }
    }
    out
}

// ---------------------------------------------------------------------------------------------
// Minimisation: shrink while the same failure class persists.

fn fails_same(case: &Case, class: &str, _cache: &RefCache) -> bool {
    let v = run_case_isolated(case, false);
    v.failure.map(|f| f.class == class).unwrap_or(false)
}

pub fn minimise(case: &Case, class: &str, cache: &RefCache) -> (Case, u32) {
    let mut best = case.clone();
    let mut steps = 0u32;
    // runs that end at the wall-clock limit cost real time: shrink for a few minutes at most
    let deadline = std::time::Instant::now()
        + std::time::Duration::from_secs(if class.starts_with("hang:wall_clock") { 55 } else { 150 });
    let mut try_accept = |cand: Case, best: &mut Case| -> bool {
        if std::time::Instant::now() > deadline {
            return false;
        }
        if cand != *best && fails_same(&cand, class, cache) {
            *best = cand;
            steps += 1;
            true
        } else {
            false
        }
    };

    // 1. simplest shader and options first
    let mut shader_candidates = vec![ShaderRef::Inline {
        source: "@fragment fn fs_main() {}".into(),
    }];
    let mut by_size: Vec<(usize, ShaderRef)> = small_jobs()
        .into_iter()
        .map(|s| (s.source().len(), s))
        .collect();
    by_size.sort_by_key(|(n, _)| *n);
    shader_candidates.extend(by_size.into_iter().map(|(_, s)| s));
    if let ShaderRef::Gen { seed, scale } = best.job.shader.clone() {
        let mut sc = 1;
        while sc < scale {
            shader_candidates.push(ShaderRef::Gen { seed, scale: sc });
            sc *= 2;
        }
    }
    for shader in shader_candidates {
        let mut cand = best.clone();
        cand.job.shader = shader;
        if try_accept(cand, &mut best) {
            break;
        }
    }
    {
        let mut cand = best.clone();
        cand.job.options = Opts::plain();
        cand.job.options.rustfmt = true;
        cand.job.include_path = None;
        try_accept(cand, &mut best);
    }

    {
        let mut cand = best.clone();
        cand.earlier_calls.clear();
        try_accept(cand, &mut best);
        // a failure inside an earlier call: that call can be the last one of the sequence
        while let Some(last) = best.earlier_calls.last().cloned() {
            let mut cand = best.clone();
            cand.earlier_calls.pop();
            cand.proc = last;
            cand.later.clear();
            if !try_accept(cand, &mut best) {
                break;
            }
        }
        while best.earlier_calls.len() > 1 {
            let mut cand = best.clone();
            cand.earlier_calls.remove(0);
            if !try_accept(cand, &mut best) {
                break;
            }
        }
        let mut cand = best.clone();
        cand.later.clear();
        try_accept(cand, &mut best);
        for script in [vec![Op::ReadToEof, Op::Format, Op::Flush, Op::ExitAuto], vec![Op::ReadToEof, Op::Exit(0)]] {
            if !best.later.is_empty() {
                let mut cand = best.clone();
                cand.later = vec![ProcPlan { script, ..ProcPlan::well_behaved() }];
                try_accept(cand, &mut best);
            }
        }
    }

    // 2. script: drop ops, then simplify arguments, to a fixpoint
    loop {
        let mut changed = false;
        let mut i = 0;
        while i < best.proc.script.len() {
            let mut cand = best.clone();
            cand.proc.script.remove(i);
            if try_accept(cand, &mut best) {
                changed = true;
            } else {
                i += 1;
            }
        }
        for i in 0..best.proc.script.len() {
            let replacements: Vec<Op> = match &best.proc.script[i] {
                Op::Delay(t) if *t > 1 => vec![Op::Delay(1)],
                Op::Read(n) if *n > 1 => vec![Op::Read(1), Op::Read(n / 2)],
                Op::EmitRef(p) if *p > 1 => vec![Op::EmitRef(1), Op::EmitRef(p / 2)],
                Op::Stderr(n) if *n > 1 => vec![Op::Stderr(1), Op::Stderr(n / 2)],
                Op::Exit(c) if *c != 1 && *c != 0 => vec![Op::Exit(1)],
                Op::Kill(s) if *s != libc::SIGKILL => vec![Op::Kill(libc::SIGKILL)],
                _ => vec![],
            };
            for r in replacements {
                let mut cand = best.clone();
                cand.proc.script[i] = r;
                if try_accept(cand, &mut best) {
                    changed = true;
                    break;
                }
            }
        }
        if !changed {
            break;
        }
    }

    // 3. knobs to their defaults
    let defaults = ProcPlan::well_behaved();
    for knob in 0..6 {
        let mut cand = best.clone();
        match knob {
            5 => cand.proc.read_max = 0,
            0 => cand.proc.stdin_cap = defaults.stdin_cap,
            1 => cand.proc.stdout_cap = defaults.stdout_cap,
            2 => cand.proc.chunk = defaults.chunk,
            3 => cand.proc.op_cost = defaults.op_cost,
            _ => cand.proc.parent_costs = defaults.parent_costs.clone(),
        }
        try_accept(cand, &mut best);
    }
    (best, steps)
}

// ---------------------------------------------------------------------------------------------
// Fault-free configuration with the real rustfmt (DESIGN §4.1): passthrough backend.

struct RealFmtResult {
    cases: u64,
    formatted: u64,
    failures: Vec<(Job, Failure)>,
}

fn real_rustfmt_block(cache: &RefCache, limit_opts: usize) -> RealFmtResult {
    let mut result = RealFmtResult {
        cases: 0,
        formatted: 0,
        failures: vec![],
    };
    let mut rng = Rng::new(0xF0F0_1234);
    let mut jobs = Vec::new();
    for shader in small_jobs() {
        for k in 0..limit_opts {
            let mut options = if k == 0 { Opts::plain() } else { Opts::random(&mut rng) };
            options.validate = false;
            jobs.push(Job {
                shader: shader.clone(),
                include_path: if k % 2 == 1 { Some("shader.wgsl".into()) } else { None },
                options,
            });
        }
    }
    jobs.push(Job {
        shader: ShaderRef::Gen { seed: 7, scale: 10 },
        include_path: None,
        options: Opts::plain(),
    });
    // a large module whose embedded source is full of non-ASCII text, tabs and quotes
    if let Some(seed) = (0..256u64).find(|s| corpus::gen_shader(*s, 8).contains('手')) {
        jobs.push(Job {
            shader: ShaderRef::Gen { seed, scale: 8 },
            include_path: None,
            options: Opts::plain(),
        });
    }
    jobs.push(Job {
        shader: HUGE,
        include_path: None,
        options: Opts {
            bytemuck_host: true,
            ..Opts::plain()
        },
    });
    for pad in 0..3 {
        jobs.push(Job {
            shader: ShaderRef::Dense { kb: 200, pad },
            include_path: None,
            options: Opts::plain(),
        });
    }
    jobs.push(Job {
        shader: ShaderRef::Inline {
            source: "override ova: f32 = 1.0;\noverride ovb: u32 = 2u;\noverride ovc: bool = true;\n@fragment fn fs_main() {}".into(),
        },
        include_path: None,
        options: Opts::plain(),
    });
    // Each job runs in its own process with a wall-clock limit: with the real formatter a
    // deadlock of the code under test is a real deadlock.
    let exe = std::env::current_exe().expect("current_exe");
    let results: Mutex<Vec<(Job, String, String, bool)>> = Mutex::new(Vec::new());
    let next = AtomicU64::new(0);
    std::thread::scope(|scope| {
        for _ in 0..crate::workers().min(8) {
            scope.spawn(|| loop {
                let i = next.fetch_add(1, Ordering::Relaxed) as usize;
                if i >= jobs.len() {
                    break;
                }
                let job = &jobs[i];
                if reference_for(cache, job).is_none() {
                    continue;
                }
                let (class, detail, formatted) = real_rustfmt_job(&exe, job);
                results.lock().unwrap().push((job.clone(), class, detail, formatted));
            });
        }
    });
    let mut results = results.into_inner().unwrap();
    results.sort_by_key(|(j, _, _, _)| j.describe());
    for (job, class, detail, formatted) in results {
        result.cases += 1;
        if class.starts_with("ok:") {
            if formatted {
                result.formatted += 1;
            }
        } else {
            result.failures.push((
                job,
                Failure {
                    class: format!("real_rustfmt:{class}"),
                    detail,
                    location: None,
                },
            ));
        }
    }
    result
}

/// Generous on purpose: a driver that formats a 1.8 MB module in pieces starts hundreds of real
/// formatter processes; slow is not hung. Only a real deadlock waits this long.
const REAL_RUSTFMT_TIMEOUT: std::time::Duration = std::time::Duration::from_secs(240);

/// Run one fault-free job against the real rustfmt in a fresh process; (class, detail, formatted).
fn real_rustfmt_job(exe: &std::path::Path, job: &Job) -> (String, String, bool) {
    use std::io::Write as _;
    use std::os::unix::process::CommandExt;
    let mut child = match std::process::Command::new(exe)
        .arg("c19-real")
        .stdin(std::process::Stdio::piped())
        .stdout(std::process::Stdio::piped())
        .stderr(std::process::Stdio::null())
        .process_group(0)
        .spawn()
    {
        Ok(c) => c,
        Err(e) => return ("harness".into(), format!("spawn: {e}"), false),
    };
    let pgid = child.id() as i32;
    if let Some(mut stdin) = child.stdin.take() {
        let _ = stdin.write_all(serde_json::to_string(job).unwrap().as_bytes());
    }
    // drain the report while the child runs (never wait for a process whose pipe nobody reads)
    let stdout = child.stdout.take();
    let reader = std::thread::spawn(move || {
        let mut out = String::new();
        if let Some(mut stdout) = stdout {
            use std::io::Read as _;
            let _ = stdout.read_to_string(&mut out);
        }
        out
    });
    let start = std::time::Instant::now();
    loop {
        match child.try_wait() {
            Ok(Some(_)) => break,
            Ok(None) if start.elapsed() > REAL_RUSTFMT_TIMEOUT => {
                unsafe {
                    libc::kill(-pgid, libc::SIGKILL);
                }
                let _ = child.wait();
                return (
                    "hang:real_rustfmt_timeout".into(),
                    format!("no result after {} s with the real rustfmt (process group killed)", REAL_RUSTFMT_TIMEOUT.as_secs()),
                    false,
                );
            }
            Ok(None) => std::thread::sleep(std::time::Duration::from_millis(5)),
            Err(e) => return ("harness".into(), format!("wait: {e}"), false),
        }
    }
    let out = reader.join().unwrap_or_default();
    match serde_json::from_str::<serde_json::Value>(&out) {
        Ok(v) => (
            v["class"].as_str().unwrap_or("harness").to_string(),
            v["detail"].as_str().unwrap_or("").to_string(),
            v["formatted"].as_bool().unwrap_or(false),
        ),
        Err(e) => ("harness".into(), format!("c19-real output: {e}: {out}"), false),
    }
}

/// `wgsl-sim c19-real`: one job with `rustfmt: true`, no backend installed (passthrough seam).
pub fn real_main() -> i32 {
    use std::io::Read as _;
    let mut text = String::new();
    if std::io::stdin().read_to_string(&mut text).is_err() {
        return 2;
    }
    let job: Job = match serde_json::from_str(&text) {
        Ok(j) => j,
        Err(_) => return 2,
    };
    let cache = new_ref_cache();
    let Some(reference) = reference_for(&cache, &job) else {
        println!("{}", json!({"class": "ok:skipped", "detail": "", "formatted": false}));
        return 0;
    };
    let mut options = job.options;
    options.rustfmt = true;
    let result = std::panic::catch_unwind(std::panic::AssertUnwindSafe(|| {
        corpus::run_job(&job.shader.source(), job.include_path.as_deref(), options)
    }));
    let formatted = matches!(&result, Ok(Outcome::Ok { text }) if text.contains("\n    "));
    let (class, failure) = judge(result, &reference, None);
    // keep the report small: the parent reads it only after this process has exited
    let detail: String = failure.map(|f| f.detail).unwrap_or_default().chars().take(400).collect();
    println!("{}", json!({"class": class, "detail": detail, "formatted": formatted}));
    0
}

// ---------------------------------------------------------------------------------------------
// Batch driver

struct Tally {
    evaluations: u64,
    eligible: u64,
    informational: u64,
    skipped: u64,
    fault_fired_runs: u64,
    distinct_fault_logs: HashSet<u64>,
    distinct_logs: HashSet<u64>,
    stats: ProcStats,
    kinds: BTreeMap<String, u64>,
    outcomes: BTreeMap<String, u64>,
    info_outcomes: BTreeMap<String, u64>,
    size_classes: BTreeMap<String, u64>,
    /// at most three (lowest run index) per (failure class, trigger): nothing crowds out a class
    failures: BTreeMap<(String, String), Vec<(u64, Case, Failure)>>,
    samples: Vec<serde_json::Value>,
    hook_points: u64,
    runs_with_spawn_through_seam: u64,
    runs_with_multi_threaded_parent: u64,
}

impl Tally {
    fn new() -> Self {
        Tally {
            evaluations: 0,
            eligible: 0,
            informational: 0,
            skipped: 0,
            fault_fired_runs: 0,
            distinct_fault_logs: HashSet::new(),
            distinct_logs: HashSet::new(),
            stats: ProcStats::default(),
            kinds: BTreeMap::new(),
            outcomes: BTreeMap::new(),
            info_outcomes: BTreeMap::new(),
            size_classes: BTreeMap::new(),
            failures: BTreeMap::new(),
            samples: Vec::new(),
            hook_points: 0,
            runs_with_spawn_through_seam: 0,
            runs_with_multi_threaded_parent: 0,
        }
    }

    fn record(&mut self, index: u64, case: &Case, v: Verdict, ref_len: usize) {
        self.evaluations += 1;
        if v.skipped {
            self.skipped += 1;
            return;
        }
        if v.eligible {
            self.eligible += 1;
            *self.outcomes.entry(v.outcome_class.clone()).or_default() += 1;
        } else {
            self.informational += 1;
            *self
                .info_outcomes
                .entry(format!("{} -> {}", v.kinds.join("+"), v.outcome_class))
                .or_default() += 1;
        }
        for k in &v.kinds {
            *self.kinds.entry(k.to_string()).or_default() += 1;
        }
        if v.fault_fired {
            self.fault_fired_runs += 1;
            self.distinct_fault_logs.insert(v.log_hash);
        }
        self.distinct_logs.insert(v.log_hash);
        self.stats.add(&v.stats);
        self.hook_points += v.hook_points;
        if v.spawns_seen > 0 {
            self.runs_with_spawn_through_seam += 1;
        }
        if v.multi_threaded_parent {
            self.runs_with_multi_threaded_parent += 1;
        }
        if case.proc.spawn == SpawnPlan::Ok {
            let rel = |cap: usize| {
                if ref_len > cap {
                    "above_cap"
                } else {
                    "within_cap"
                }
            };
            *self
                .size_classes
                .entry(format!("stdin_{}", rel(case.proc.stdin_cap)))
                .or_default() += 1;
            *self
                .size_classes
                .entry(format!("stdout_{}", rel(case.proc.stdout_cap)))
                .or_default() += 1;
        }
        if self.samples.len() < 6 && (index % 97 == 3 || self.samples.is_empty()) {
            self.samples.push(json!({
                "run": index,
                "job": case.job.describe(),
                "output_bytes": ref_len,
                "plan": case.proc,
                "kinds": v.kinds,
                "eligible": v.eligible,
                "outcome": v.outcome_class,
                "event_log_hash": format!("{:016x}", v.log_hash),
            }));
        }
        if let Some(f) = v.failure {
            let key = (f.class.clone(), trigger_of(case));
            let slot = self.failures.entry(key).or_default();
            slot.push((index, case.clone(), f));
            slot.sort_by_key(|(i, _, _)| *i);
            slot.truncate(3);
        }
    }

    fn merge(&mut self, o: Tally) {
        self.evaluations += o.evaluations;
        self.eligible += o.eligible;
        self.informational += o.informational;
        self.skipped += o.skipped;
        self.fault_fired_runs += o.fault_fired_runs;
        self.distinct_fault_logs.extend(o.distinct_fault_logs);
        self.distinct_logs.extend(o.distinct_logs);
        self.stats.add(&o.stats);
        self.hook_points += o.hook_points;
        self.runs_with_spawn_through_seam += o.runs_with_spawn_through_seam;
        self.runs_with_multi_threaded_parent += o.runs_with_multi_threaded_parent;
        for (k, v) in o.kinds {
            *self.kinds.entry(k).or_default() += v;
        }
        for (k, v) in o.outcomes {
            *self.outcomes.entry(k).or_default() += v;
        }
        for (k, v) in o.info_outcomes {
            *self.info_outcomes.entry(k).or_default() += v;
        }
        for (k, v) in o.size_classes {
            *self.size_classes.entry(k).or_default() += v;
        }
        for (k, v) in o.failures {
            let slot = self.failures.entry(k).or_default();
            slot.extend(v);
            slot.sort_by_key(|(i, _, _)| *i);
            slot.truncate(3);
        }
        self.samples.extend(o.samples);
    }
}

pub fn case_for_run(seed: u64, index: u64) -> Case {
    let mut rng = Rng::new(rng::mix(seed, &[rng::label("C19"), index]));
    gen_case(&mut rng)
}

/// Once this many runs of a batch have failed the verdict is settled; the rest is skipped.
const FAILING_RUNS_ENOUGH: u64 = 150;

fn run_batch(mode: &str, seed: u64, n: u64) -> Result<Tally, String> {
    use std::io::BufRead as _;
    let workers = crate::workers() as u64;
    let exe = std::env::current_exe().map_err(|e| e.to_string())?;
    let sys = if mode == "sys" { systematic_cases() } else { vec![] };
    let failing = AtomicU64::new(0);
    let total = Mutex::new(Tally::new());
    let error = Mutex::new(None::<String>);
    std::thread::scope(|scope| {
        for w in 0..workers.min(n.max(1)) {
            let (exe, sys, failing, total, error) = (&exe, &sys, &failing, &total, &error);
            scope.spawn(move || {
                let child = std::process::Command::new(exe)
                    .args([
                        "c19-worker".to_string(),
                        mode.to_string(),
                        seed.to_string(),
                        n.to_string(),
                        w.to_string(),
                        workers.to_string(),
                    ])
                    .stdout(std::process::Stdio::piped())
                    .stderr(std::process::Stdio::null())
                    .spawn();
                let mut child = match child {
                    Ok(c) => c,
                    Err(e) => {
                        *error.lock().unwrap() = Some(format!("spawn c19-worker: {e}"));
                        return;
                    }
                };
                let reader = std::io::BufReader::new(child.stdout.take().unwrap());
                let mut local = Tally::new();
                let mut seen = 0u64;
                for line in reader.lines() {
                    let Ok(line) = line else { break };
                    let mut parts = line.splitn(4, ' ');
                    let (Some("V"), Some(i), Some(ref_len), Some(json)) =
                        (parts.next(), parts.next(), parts.next(), parts.next())
                    else {
                        continue;
                    };
                    let (Ok(i), Ok(ref_len)) = (i.parse::<u64>(), ref_len.parse::<usize>()) else {
                        continue;
                    };
                    let v: Verdict = match serde_json::from_str(json) {
                        Ok(v) => v,
                        Err(e) => {
                            *error.lock().unwrap() = Some(format!("worker line for run {i}: {e}"));
                            break;
                        }
                    };
                    seen += 1;
                    let mut case = if mode == "sys" {
                        sys[i as usize].clone()
                    } else {
                        case_for_run(seed, i)
                    };
                    case.env.extend(v.env_added.iter().cloned());
                    if let Some(f) = v.failure.as_ref().filter(|f| !f.class.contains("semicolon")) {
                        // a run that ended at the wall-clock limit cost 25 s: a handful settles it
                        let weight = if f.class.starts_with("hang:wall_clock") { 12 } else { 1 };
                        failing.fetch_add(weight, Ordering::Relaxed);
                    }
                    local.record(i, &case, v, ref_len);
                    if failing.load(Ordering::Relaxed) >= FAILING_RUNS_ENOUGH {
                        break;
                    }
                }
                let _ = child.kill();
                let status = child.wait();
                let expected = (n.saturating_sub(w) + workers - 1) / workers;
                if seen < expected && failing.load(Ordering::Relaxed) < FAILING_RUNS_ENOUGH {
                    let mut e = error.lock().unwrap();
                    if e.is_none() {
                        *e = Some(format!("c19-worker {w} delivered {seen} of {expected} runs ({status:?})"));
                    }
                }
                total.lock().unwrap().merge(local);
            });
        }
    });
    if let Some(e) = error.into_inner().unwrap() {
        return Err(e);
    }
    let mut t = total.into_inner().unwrap();
    t.samples.sort_by_key(|s| s["run"].as_u64().unwrap_or(0));
    t.samples.truncate(6);
    Ok(t)
}

fn trigger_of(case: &Case) -> String {
    let (_, kinds) = classify_case(case);
    kinds.join("+")
}

fn replay_doc(seed: u64, run: &str, case: &Case, failure: &Failure, v: &Verdict, original: &Case, steps: u32) -> serde_json::Value {
    json!({
        "property": "C19",
        "seed": seed,
        "run": run,
        "failure_class": failure.class,
        "trigger": trigger_of(case),
        "detail": failure.detail,
        "panic_location": failure.location,
        "case": case,
        "source": case.job.shader.source(),
        "event_log_hash": format!("{:016x}", v.log_hash),
        "event_log": v.log,
        "minimised_from": {
            "script_ops": original.proc.script.len(),
            "shader": original.job.shader.describe(),
            "accepted_shrink_steps": steps,
        },
    })
}

/// Classify, minimise, write the replay file, re-execute it in a fresh process.
/// Returns the lines to print and whether any unlisted violation remains.
fn report_failures(
    seed: u64,
    failures: &[(String, Case, Failure)],
    cache: &RefCache,
    known: &known::Known,
) -> Result<(Vec<String>, usize, usize), String> {
    let mut lines = Vec::new();
    let mut seen: HashSet<(String, String)> = HashSet::new();
    let mut violations = 0;
    let mut known_hits = 0;
    for (run, case, failure) in failures {
        if failure.class == "harness" {
            return Err(format!("harness panic in run {run}: {}", failure.detail));
        }
        if let Some(k) = known.lookup("C19", &failure.class, &trigger_of(case)) {
            if seen.insert((failure.class.clone(), format!("known:{}", k.trigger))) {
                known_hits += 1;
                lines.push(format!(
                    "KNOWN-FINDING: property=C19 {} [{}] {} (e.g. run {run}: {})",
                    failure.class,
                    k.trigger,
                    k.what,
                    case.job.describe()
                ));
            }
            continue;
        }
        let (min, steps) = minimise(case, &failure.class, cache);
        let trigger = trigger_of(&min);
        if !seen.insert((failure.class.clone(), trigger.clone())) {
            continue;
        }
        // Confirm with a fresh execution. Code under test that uses helper threads around the
        // formatter is not ours to schedule: such a failure may need several attempts, and if even
        // the original case does not fail again it is still reported (it was observed), marked
        // as not exactly replayable.
        let mut confirmed: Option<(Case, Verdict)> = None;
        'confirm: for cand in [&min, case] {
            for _ in 0..4 {
                let v = run_case_isolated(cand, true);
                let multi = v.multi_threaded_parent;
                if v.failure.is_some() {
                    confirmed = Some((cand.clone(), v));
                    break 'confirm;
                }
                if !multi {
                    break;
                }
            }
        }
        let (min, v, observed_only) = match confirmed {
            Some((c, v)) => (c, v, false),
            None => {
                let mut v = run_case_isolated(case, true);
                if !v.multi_threaded_parent {
                    return Err(format!("minimised case of run {run} no longer fails"));
                }
                v.failure = Some(failure.clone());
                (case.clone(), v, true)
            }
        };
        let f = v.failure.clone().expect("failure present");
        if let Some(k) = known.lookup("C19", &f.class, &trigger) {
            known_hits += 1;
            lines.push(format!(
                "KNOWN-FINDING: property=C19 {} [{}] {}",
                f.class, trigger, k.what
            ));
            continue;
        }
        let name = format!("{seed}-{}", run.replace(':', "_"));
        let path = evidence::write_replay("C19", &name, &replay_doc(seed, run, &min, &f, &v, case, steps))?;
        // fresh process, identical failure class and event-log hash required
        let exe = std::env::current_exe().map_err(|e| e.to_string())?;
        let out = std::process::Command::new(exe)
            .arg("replay")
            .arg(&path)
            .output()
            .map_err(|e| format!("replay subprocess: {e}"))?;
        let stdout = String::from_utf8_lossy(&out.stdout);
        let tolerated = v.multi_threaded_parent || observed_only;
        if !tolerated && (out.status.code() != Some(1) || !stdout.contains("REPLAY-EXACT")) {
            return Err(format!(
                "replay of {path:?} in a fresh process did not reproduce exactly (exit {:?}): {stdout}",
                out.status.code()
            ));
        }
        violations += 1;
        lines.push(format!(
            "C19 violation: {} [{}] at {} :: {}",
            f.class,
            trigger,
            f.location.clone().unwrap_or_else(|| "-".into()),
            f.detail.chars().take(160).collect::<String>()
        ));
        lines.push(format!("VIOLATION property=C19 replay={}", path.display()));
    }
    Ok((lines, violations, known_hits))
}

pub fn main(tier: Tier) -> i32 {
    let start = std::time::Instant::now();
    let seed = crate::verif_seed();
    println!("C19 tier={} VERIF_SEED={seed} workers={}", tier.name(), crate::workers());
    let known = match known::Known::load() {
        Ok(k) => k,
        Err(e) => {
            eprintln!("HARNESS-ERROR {e}");
            return 2;
        }
    };
    let cache: RefCache = Mutex::new(HashMap::new());

    // 4.1 fault-free, real rustfmt through the passthrough seam
    let real = real_rustfmt_block(&cache, if tier == Tier::Quick { 2 } else { 6 });

    // 4.2 systematic block, then the seeded random block
    let sys_cases = systematic_cases();
    let sys = match run_batch("sys", seed, sys_cases.len() as u64) {
        Ok(t) => t,
        Err(e) => {
            eprintln!("HARNESS-ERROR {e}");
            return 2;
        }
    };
    let n_random: u64 = std::env::var("VERIF_C19_RUNS")
        .ok()
        .and_then(|s| s.parse().ok())
        .unwrap_or(match tier {
            Tier::Quick => 4000,
            Tier::Thorough => 1_000_000,
        });
    let random = match run_batch("rnd", seed, n_random) {
        Ok(t) => t,
        Err(e) => {
            eprintln!("HARNESS-ERROR {e}");
            return 2;
        }
    };

    // determinism slice: re-run a sample of the random block, hashes must agree
    let det_n = if tier == Tier::Quick { 64 } else { 2048 };
    let mut det_mismatch = 0;
    for i in 0..det_n.min(n_random) {
        let case = case_for_run(seed, i * 7 % n_random.max(1));
        let a = run_case_isolated(&case, false);
        let b = run_case_isolated(&case, false);
        if a.multi_threaded_parent || b.multi_threaded_parent {
            // the code under test uses helper threads around the formatter: their real-time
            // interleaving is not behind a seam, only outcomes are comparable
            continue;
        }
        if a.log_hash != b.log_hash || a.outcome_class != b.outcome_class {
            det_mismatch += 1;
        }
    }
    if det_mismatch > 0 {
        eprintln!("HARNESS-ERROR determinism self-check: {det_mismatch} of {det_n} runs differed between two executions");
        return 2;
    }

    // 4.4 the model against the real kernel for the scenario matrix
    let kernel = match crate::realkernel::cross_check(tier) {
        Ok(k) => k,
        Err(e) => {
            eprintln!("HARNESS-ERROR kernel cross-check: {e}");
            return 2;
        }
    };
    let mut failures: Vec<(String, Case, Failure)> = Vec::new();
    for (i, c, f) in sys.failures.values().flatten() {
        failures.push((format!("sys:{i}"), c.clone(), f.clone()));
    }
    for (i, c, f) in random.failures.values().flatten() {
        failures.push((format!("rnd:{i}"), c.clone(), f.clone()));
    }
    let mut lines = Vec::new();
    let mut violations = 0;
    let mut known_hits = 0;
    let mut real_known_seen = HashSet::new();
    for (job, f) in &real.failures {
        if f.class == "real_rustfmt:harness" {
            eprintln!("HARNESS-ERROR real rustfmt block, {}: {}", job.describe(), f.detail);
            return 2;
        }
        // real rustfmt disagreeing is a fault-free violation; replay = the job itself
        if let Some(k) = known.lookup("C19", &f.class, "fault_free_real_rustfmt") {
            if real_known_seen.insert(f.class.clone()) {
                known_hits += 1;
                lines.push(format!(
                    "KNOWN-FINDING: property=C19 {} [fault_free_real_rustfmt] {} (e.g. {})",
                    f.class,
                    k.what,
                    job.describe()
                ));
            }
            continue;
        }
        let doc = json!({"property":"C19","seed":seed,"run":"real_rustfmt","failure_class":f.class,
            "detail": f.detail, "real_rustfmt_job": job, "source": job.shader.source()});
        match evidence::write_replay("C19", &format!("{seed}-real-{:x}", rng::fnv1a(job.describe().as_bytes())), &doc) {
            Ok(path) => {
                violations += 1;
                lines.push(format!("C19 violation (fault-free, real rustfmt): {} :: {}", f.class, f.detail));
                lines.push(format!("VIOLATION property=C19 replay={}", path.display()));
            }
            Err(e) => {
                eprintln!("HARNESS-ERROR {e}");
                return 2;
            }
        }
    }
    match report_failures(seed, &failures, &cache, &known) {
        Ok((l, v, k)) => {
            lines.extend(l);
            violations += v;
            known_hits += k;
        }
        Err(e) => {
            eprintln!("HARNESS-ERROR {e}");
            return 2;
        }
    }

    // Model vs. kernel disagreements (DESIGN §4.4):
    //  * eligible scenario, kernel outcome breaks the oracle, model said ok: the real kernel
    //    itself demonstrates a violation (typically a race the forced ordering does not pin);
    //  * model said "fails", kernel says ok: the model cannot be trusted -> harness error;
    //  * anything else (ok vs ok, informational scenarios): harness error only if this run would
    //    otherwise report a clean pass.
    let mut kernel_warnings = 0;
    let mut kernel_ok_vs_ok = 0;
    for d in &kernel.disagreements {
        println!(
            "MODEL-DISAGREES {}: model={} kernel={} eligible={}",
            d.scenario.name, d.model, d.kernel, d.eligible
        );
        let kernel_ok = d.kernel.starts_with("ok:");
        let model_ok = d.model.starts_with("ok:");
        if d.eligible && !kernel_ok && model_ok {
            let class = format!("real_kernel:{}", d.kernel);
            if let Some(k) = known.lookup("C19", &class, &d.scenario.name) {
                known_hits += 1;
                lines.push(format!("KNOWN-FINDING: property=C19 {class} {}", k.what));
                continue;
            }
            let doc = json!({"property":"C19","seed":seed,"run":"real_kernel","failure_class":class,
                "detail": format!("real child process, real pipes, scenario {}: the call returned {} (the simulated run of the same scenario returned {})", d.scenario.name, d.kernel, d.model),
                "kernel_scenario": d.scenario, "replay_exact": false});
            match evidence::write_replay("C19", &format!("{seed}-kernel-{:x}", rng::fnv1a(d.scenario.name.as_bytes())), &doc) {
                Ok(path) => {
                    violations += 1;
                    lines.push(format!("C19 violation (real kernel): {} in scenario {}", d.kernel, d.scenario.name));
                    lines.push(format!("VIOLATION property=C19 replay={}", path.display()));
                }
                Err(e) => {
                    eprintln!("HARNESS-ERROR {e}");
                    return 2;
                }
            }
        } else if d.eligible && kernel_ok && !model_ok {
            eprintln!("HARNESS-ERROR the formatter-process model reports a failure the real kernel does not show ({}): model={} kernel={}", d.scenario.name, d.model, d.kernel);
            return 2;
        } else if kernel_ok && model_ok {
            // formatted vs. fallback: both satisfy the oracle (code with timeouts or retries
            // legitimately lands on either side); recorded, never an error
            kernel_ok_vs_ok += 1;
        } else {
            kernel_warnings += 1;
        }
    }
    if kernel_warnings > 0 && violations == 0 {
        eprintln!("HARNESS-ERROR the formatter-process model disagrees with the real kernel in {kernel_warnings} of {} scenarios and nothing else was found: a clean verdict cannot be trusted", kernel.scenarios);
        return 2;
    }

    let wall = start.elapsed().as_secs_f64();
    let mut all = Tally::new();
    let sys_eval = sys.evaluations;
    let sys_samples = sys.samples.clone();
    all.merge(sys);
    all.merge(random);
    if all.eligible > 0 && all.runs_with_spawn_through_seam == 0 {
        eprintln!("HARNESS-ERROR no formatter process was created through the verification seam in {} runs with rustfmt:true: the code under test bypasses `Command`/`Stdio` in pretty_print_rustfmt, so C19 cannot be decided by this simulator", all.evaluations);
        return 2;
    }
    let unreached: Vec<&str> = [
        ("epipe", all.stats.epipe),
        ("epipe_mid_write", all.stats.epipe_mid_write),
        ("parent_blocked_on_full_stdin", all.stats.parent_blocked_on_full_stdin),
        ("parent_blocked_on_empty_stdout", all.stats.parent_blocked_on_empty_stdout),
        ("child_blocked_on_full_stdout", all.stats.child_blocked_on_full_stdout),
        ("child_exit_before_first_write", all.stats.child_exit_before_first_write),
        ("child_exit_zero_empty", all.stats.child_exit_zero_empty),
        ("child_killed", all.stats.child_killed),
        ("child_exit_nonzero", all.stats.child_exit_nonzero),
        ("spawn_errors", all.stats.spawn_errors),
        ("format_ok", all.stats.format_ok),
    ]
    .iter()
    .filter(|(_, n)| *n == 0)
    .map(|(k, _)| *k)
    .collect();
    for u in &unreached {
        println!("warning: probe `{u}` was never reached in this batch");
    }
    let mut samples = sys_samples;
    samples.truncate(2);
    samples.extend(all.samples.iter().cloned());
    samples.truncate(8);
    let coverage = json!({
        "evaluations": all.evaluations + real.cases,
        "distinct_nontrivial": all.distinct_fault_logs.len(),
        "rule": "one evaluation = one run in a process of its own: one call of create_shader_module[_embedded] with rustfmt:true (one run in six: a sequence of two or three calls, every one judged) against the simulated formatter process(es) under one plan (fault script x pipe capacities x relative speeds x short reads x exit window x later processes x shader x options x environment); a run whose driver asks for unset environment variables is executed again with them set; systematic block first, then runs drawn from VERIF_SEED; distinct_nontrivial = number of distinct event-log hashes (parent seam calls + child ops + verdict, with virtual timestamps) among runs in which at least one fault actually fired (spawn error, non-zero exit, kill, empty output on exit 0, EPIPE)",
        "samples": samples,
        "exhaustive": false,
        "systematic_cases": sys_eval,
        "random_runs": n_random,
        "real_rustfmt_fault_free_cases": real.cases,
        "real_rustfmt_outputs_that_were_formatted": real.formatted,
        "oracle_eligible_runs": all.eligible,
        "informational_runs_outside_oracle": all.informational,
        "skipped_no_reference_program": all.skipped,
        "runs_with_fault_fired": all.fault_fired_runs,
        "distinct_event_logs": all.distinct_logs.len(),
        "runs_per_hour": evidence::per_hour(all.evaluations, wall),
        "simulated_time_ticks": all.stats.vticks,
        "fault_kinds_planned": all.kinds,
        "faults_fired_and_probes": all.stats.to_json(),
        "unreached_probes": unreached,
        "output_size_vs_pipe_capacity": all.size_classes,
        "outcomes_eligible": all.outcomes,
        "outcomes_informational": all.info_outcomes,
        "hook_points_passed": all.hook_points,
        "runs_with_spawn_through_seam": all.runs_with_spawn_through_seam,
        "runs_with_multi_threaded_parent": all.runs_with_multi_threaded_parent,
        "determinism_pairs_checked": det_n,
        "known_findings_hit": known_hits,
        "model_vs_real_kernel": {
            "scenarios": kernel.scenarios,
            "agree": kernel.agree,
            "formatted_vs_fallback_only": kernel_ok_vs_ok,
            "disagreements": kernel.disagreements.iter().map(|d| format!("{}: model={} kernel={}", d.scenario.name, d.model, d.kernel)).collect::<Vec<_>>(),
            "outcome_classes_on_the_real_kernel": kernel.classes,
            "what": "same fault scripts executed by a real child process over real pipes with forced orderings (child-first: spawn returns once the child is a zombie or asleep; parent-first: child waits for FIONREAD); the outcome class must equal the model's, a disagreement is exit 2",
        },
        "components": {
            "real": ["wgsl_to_wgpu::create_shader_module*, all generators, pretty_print_rustfmt (parent side: write_all, wait_with_output via the seam's mirror of std, status test, from_utf8)", "real rustfmt binary in the fault-free block"],
            "stub": ["formatter process, its pipes and exit status (procsim model)", "formatting function of the simulated formatter (prettyplease)"],
        },
    });
    if let Err(e) = evidence::write(
        "C19",
        tier,
        seed,
        "fault_enumeration",
        coverage,
        &[
            "the pipe/process model in sim/src/procsim.rs matches Linux blocking-pipe semantics (cross-checked against the kernel by `check C19 thorough` for the scenario matrix only)",
            "prettyplease stands in for rustfmt's formatting function in simulated runs",
            "token comparison drops a comma directly before a closing delimiter on both sides",
        ],
        wall,
        violations,
    ) {
        eprintln!("HARNESS-ERROR {e}");
        return 2;
    }
    for l in &lines {
        println!("{l}");
    }
    println!(
        "C19 {}: {} runs ({} eligible, {} informational), {} with a fault fired, {} distinct fault logs, {} violations, {} known, {:.1}s",
        tier.name(),
        all.evaluations + real.cases,
        all.eligible,
        all.informational,
        all.fault_fired_runs,
        all.distinct_fault_logs.len(),
        violations,
        known_hits,
        wall
    );
    if violations > 0 {
        1
    } else {
        0
    }
}

pub fn replay(path: &str, doc: &serde_json::Value) -> i32 {
    if doc.get("real_rustfmt_job").is_some() {
        let job: Job = match serde_json::from_value(doc["real_rustfmt_job"].clone()) {
            Ok(j) => j,
            Err(e) => {
                eprintln!("HARNESS-ERROR bad replay file: {e}");
                return 2;
            }
        };
        let exe = std::env::current_exe().expect("current_exe");
        let (class, detail, _) = real_rustfmt_job(&exe, &job);
        if class == "harness" {
            eprintln!("HARNESS-ERROR {detail}");
            return 2;
        }
        if class.starts_with("ok:") {
            println!("replay {path}: property holds with the real rustfmt ({class})");
            return 0;
        }
        println!("real rustfmt: {class} {detail}");
        println!("REPLAY-EXACT class={}", doc["failure_class"].as_str().unwrap_or(""));
        println!("VIOLATION property=C19 replay={path}");
        return 1;
    }
    if doc.get("kernel_scenario").is_some() {
        let sc: crate::realkernel::Scenario = match serde_json::from_value(doc["kernel_scenario"].clone()) {
            Ok(s) => s,
            Err(e) => {
                eprintln!("HARNESS-ERROR bad replay file: {e}");
                return 2;
            }
        };
        let env = match crate::realkernel::KernelEnv::new() {
            Ok(e) => e,
            Err(e) => {
                eprintln!("HARNESS-ERROR {e}");
                return 2;
            }
        };
        // real processes: the outcome may depend on timing the harness does not control
        for attempt in 1..=40 {
            match env.run(&sc) {
                Ok(class) if !class.starts_with("ok:") => {
                    println!("attempt {attempt}: real kernel outcome {class}");
                    println!("REPLAY-DIFFERS class=real_kernel:{class} (real processes, not bit-exact)");
                    println!("VIOLATION property=C19 replay={path}");
                    return 1;
                }
                Ok(_) => {}
                Err(e) => {
                    eprintln!("HARNESS-ERROR {e}");
                    return 2;
                }
            }
        }
        println!("replay {path}: 40 executions on the real kernel all returned the program");
        return 0;
    }
    let case: Case = match serde_json::from_value(doc["case"].clone()) {
        Ok(c) => c,
        Err(e) => {
            eprintln!("HARNESS-ERROR bad replay file: {e}");
            return 2;
        }
    };
    let want_class = doc["failure_class"].as_str().unwrap_or("").to_string();
    let want_hash = doc["event_log_hash"].as_str().unwrap_or("").to_string();
    let v = run_case_isolated(&case, true);
    for line in &v.log {
        println!("  {line}");
    }
    println!("outcome: {}", v.outcome_class);
    match &v.failure {
        None => {
            println!("replay {path}: no violation on this tree (recorded class was {want_class})");
            0
        }
        Some(f) => {
            let hash = format!("{:016x}", v.log_hash);
            if f.class == want_class && (hash == want_hash || v.multi_threaded_parent) {
                println!("REPLAY-EXACT class={} hash={hash}", f.class);
            } else {
                println!(
                    "REPLAY-DIFFERS class={} (recorded {want_class}) hash={hash} (recorded {want_hash})",
                    f.class
                );
            }
            println!("{} at {} :: {}", f.class, f.location.clone().unwrap_or_else(|| "-".into()), f.detail);
            println!("VIOLATION property=C19 replay={path}");
            1
        }
    }
}

/// Determinism on a larger sample, at two worker counts (DESIGN §1.6).
pub fn selftest() -> i32 {
    let seed = crate::verif_seed();
    let cache: RefCache = Mutex::new(HashMap::new());
    let n = 3000u64;
    let collect = |workers: usize| -> Vec<(u64, String)> {
        std::env::set_var("VERIF_WORKERS", workers.to_string());
        let out = Mutex::new(vec![(0u64, String::new()); n as usize]);
        let next = AtomicU64::new(0);
        std::thread::scope(|s| {
            for _ in 0..workers {
                s.spawn(|| loop {
                    let i = next.fetch_add(1, Ordering::Relaxed);
                    if i >= n {
                        break;
                    }
                    let case = case_for_run(seed, i);
                    let reference = reference_for(&cache, &case.job);
                    let v = run_case(&case, reference.as_ref(), false);
                    out.lock().unwrap()[i as usize] = (v.log_hash, v.outcome_class);
                });
            }
        });
        out.into_inner().unwrap()
    };
    let a = collect(1);
    let b = collect(16);
    let c = collect(5);
    let diff = a
        .iter()
        .zip(b.iter())
        .zip(c.iter())
        .filter(|((x, y), z)| x != y || y != z)
        .count();
    let mut h = Hasher::default();
    for (x, o) in &a {
        h.u64(*x);
        h.str(o);
    }
    println!("C19 selftest: {n} runs x 3 executions (1, 16, 5 workers): {diff} differing; batch hash {:016x}", h.0);
    if diff == 0 {
        0
    } else {
        eprintln!("HARNESS-ERROR C19 simulation is not deterministic");
        2
    }
}
