//! Model of the formatter child process and its pipes (DESIGN §1.4).
//!
//! The parent is the real library code running on a real thread; it reaches this model through
//! `wgsl_to_wgpu::verif_hooks::process`. The child is a scripted state machine that is stepped
//! synchronously inside the parent's seam calls, on a discrete virtual clock. Nothing here reads a
//! real clock or sleeps; a run is a pure function of its plan.

use crate::Sentinel;
use serde::{Deserialize, Serialize};
use std::collections::VecDeque;
use std::io;
use std::os::unix::process::ExitStatusExt;
use std::process::ExitStatus;
use std::sync::{Arc, Mutex};
use wgsl_to_wgpu::verif_hooks::process::{ChildIo, Fd, SpawnSpec, StdioKind};

#[derive(Debug, Clone, Serialize, Deserialize, PartialEq, Eq)]
#[serde(rename_all = "snake_case")]
pub enum Op {
    /// Do nothing for this many ticks.
    Delay(u64),
    /// Block until this many further bytes arrived on stdin (or EOF).
    Read(usize),
    /// Block until the parent closed stdin, consuming everything.
    ReadToEof,
    /// Format what was received: on success queue the formatted text, else remember the failure.
    Format,
    /// Queue the first `permille` thousandths of the formatted reference program.
    EmitRef(u32),
    /// Queue this many bytes of non-Rust ASCII garbage (informational configuration only).
    EmitGarbage(usize),
    /// Queue this many bytes that are not UTF-8 (informational configuration only).
    EmitNonUtf8(usize),
    /// Write everything queued to stdout (blocking, in chunks).
    Flush,
    /// Write this many bytes of diagnostics to stderr (blocking, in chunks, if stderr is a pipe).
    Stderr(usize),
    CloseStdin,
    CloseStdout,
    /// Exit with this code.
    Exit(i32),
    /// Exit 0 if `Format` succeeded, 1 otherwise (what rustfmt does).
    ExitAuto,
    /// Die from this signal.
    Kill(i32),
}

#[derive(Debug, Clone, Copy, Serialize, Deserialize, PartialEq, Eq)]
#[serde(rename_all = "snake_case")]
pub enum SpawnPlan {
    Ok,
    NotFound,
    PermissionDenied,
    /// EAGAIN: informational only.
    Again,
    /// ENOMEM: informational only.
    NoMem,
}

#[derive(Debug, Clone, Serialize, Deserialize, PartialEq, Eq)]
pub struct ProcPlan {
    pub spawn: SpawnPlan,
    pub script: Vec<Op>,
    pub stdin_cap: usize,
    pub stdout_cap: usize,
    /// Largest write the child issues at once.
    pub chunk: usize,
    /// Ticks every non-delay child op costs.
    pub op_cost: u64,
    /// Ticks consumed by the parent's successive seam calls (cyclic).
    pub parent_costs: Vec<u64>,
    /// Let `write` return after a partial transfer even though the reader is still there
    /// (legal for `Write::write`, never done by Linux for blocking pipes; informational only).
    #[serde(default)]
    pub short_writes: bool,
    /// Ticks between the moment the exiting child's pipe ends close (EOF / EPIPE visible to the
    /// parent) and the moment it becomes waitable (`try_wait` sees the status). The kernel closes
    /// the files of an exiting process before it notifies the parent, so the window is real.
    #[serde(default)]
    pub exit_lag: u64,
    /// Most bytes a single parent `read` returns (0 = whatever is there): reads shorter than the
    /// buffer are legal for pipes and move the chunk boundaries the parent's read loop sees.
    #[serde(default)]
    pub read_max: usize,
}

impl ProcPlan {
    pub fn well_behaved() -> Self {
        ProcPlan {
            spawn: SpawnPlan::Ok,
            script: vec![Op::ReadToEof, Op::Format, Op::Flush, Op::ExitAuto],
            stdin_cap: 65536,
            stdout_cap: 65536,
            chunk: 4096,
            op_cost: 1,
            parent_costs: vec![1],
            short_writes: false,
            exit_lag: 0,
            read_max: 0,
        }
    }
}

/// The pure formatting function of the simulated formatter (stub for rustfmt's).
/// How many bytes of the reference text `EmitRef(p)` prints. p <= 1000: that many permille, cut
/// anywhere. p > 1000: (p - 1000) permille, moved forward to the end of a top-level item (a line
/// that is just `}` or ends in `;` at column 0 in pretty-printed text) - a prefix that is a
/// complete Rust file in itself, only shorter.
pub fn emit_ref_len(reference: &str, p: u32) -> usize {
    let permille = if p > 1000 { (p - 1000).min(999) } else { p } as usize;
    let mut n = (reference.len() * permille / 1000).min(reference.len());
    while n > 0 && !reference.is_char_boundary(n) {
        n -= 1;
    }
    if p > 1000 {
        let mut at = 0;
        let mut best = None;
        for line in reference.split_inclusive('\n') {
            at += line.len();
            let top_level_end = line == "}\n" || (!line.starts_with(' ') && line.trim_end().ends_with(';'));
            if top_level_end && at >= n && at < reference.len() {
                best = Some(at);
                break;
            }
        }
        if let Some(b) = best {
            n = b;
        }
    }
    n
}

pub fn format_source(text: &str) -> Option<String> {
    let file = syn::parse_file(text).ok()?;
    // prettyplease panics on some verbatim input; treat that as a formatter failure.
    let body =
        std::panic::catch_unwind(std::panic::AssertUnwindSafe(|| prettyplease::unparse(&file))).ok()?;
    // The simulated formatter must not be byte-identical to the library's own prettyplease path,
    // or "formatted by the external process" and "formatted in-process" could not be told apart.
    Some(format!("{SIM_FORMATTER_HEADER}{body}"))
}

pub const SIM_FORMATTER_HEADER: &str = "// formatted by the simulated rustfmt\n";

#[derive(Debug, Clone, Copy, PartialEq, Eq)]
pub struct Ev {
    pub t: u64,
    /// 'P' parent, 'C' child, 'S' simulator verdicts
    pub who: char,
    pub what: &'static str,
    pub a: i64,
    pub b: i64,
}

#[derive(Debug, Default, Clone, Serialize, Deserialize)]
#[serde(default)]
pub struct ProcStats {
    pub spawns: u64,
    pub spawn_errors: u64,
    pub parent_ops: u64,
    pub child_ops: u64,
    pub epipe: u64,
    pub epipe_mid_write: u64,
    pub parent_blocked_on_full_stdin: u64,
    pub parent_blocked_on_empty_stdout: u64,
    pub parent_blocked_in_wait: u64,
    pub child_blocked_on_full_stdout: u64,
    pub child_blocked_on_empty_stdin: u64,
    pub child_blocked_on_full_stderr: u64,
    pub bytes_to_stderr: u64,
    pub child_exit_before_first_write: u64,
    pub child_exit_nonzero: u64,
    pub child_killed: u64,
    pub child_sigpipe: u64,
    pub child_exit_zero_empty: u64,
    pub format_ok: u64,
    pub format_failed: u64,
    pub short_writes: u64,
    pub hangs: u64,
    pub unreaped: u64,
    pub try_wait_in_exit_window: u64,
    pub parent_threads_max: u64,
    pub vticks: u64,
    pub bytes_to_child: u64,
    pub bytes_from_child: u64,
}

impl ProcStats {
    pub fn add(&mut self, o: &ProcStats) {
        self.spawns += o.spawns;
        self.spawn_errors += o.spawn_errors;
        self.parent_ops += o.parent_ops;
        self.child_ops += o.child_ops;
        self.epipe += o.epipe;
        self.epipe_mid_write += o.epipe_mid_write;
        self.parent_blocked_on_full_stdin += o.parent_blocked_on_full_stdin;
        self.parent_blocked_on_empty_stdout += o.parent_blocked_on_empty_stdout;
        self.parent_blocked_in_wait += o.parent_blocked_in_wait;
        self.child_blocked_on_full_stdout += o.child_blocked_on_full_stdout;
        self.child_blocked_on_empty_stdin += o.child_blocked_on_empty_stdin;
        self.child_blocked_on_full_stderr += o.child_blocked_on_full_stderr;
        self.bytes_to_stderr += o.bytes_to_stderr;
        self.child_exit_before_first_write += o.child_exit_before_first_write;
        self.child_exit_nonzero += o.child_exit_nonzero;
        self.child_killed += o.child_killed;
        self.child_sigpipe += o.child_sigpipe;
        self.child_exit_zero_empty += o.child_exit_zero_empty;
        self.format_ok += o.format_ok;
        self.format_failed += o.format_failed;
        self.short_writes += o.short_writes;
        self.hangs += o.hangs;
        self.unreaped += o.unreaped;
        self.try_wait_in_exit_window += o.try_wait_in_exit_window;
        self.parent_threads_max = self.parent_threads_max.max(o.parent_threads_max);
        self.vticks += o.vticks;
        self.bytes_to_child += o.bytes_to_child;
        self.bytes_from_child += o.bytes_from_child;
    }

    pub fn to_json(&self) -> serde_json::Value {
        serde_json::json!({
            "spawns": self.spawns, "spawn_errors": self.spawn_errors,
            "parent_ops": self.parent_ops, "child_ops": self.child_ops,
            "epipe": self.epipe, "epipe_mid_write": self.epipe_mid_write,
            "parent_blocked_on_full_stdin": self.parent_blocked_on_full_stdin,
            "parent_blocked_on_empty_stdout": self.parent_blocked_on_empty_stdout,
            "parent_blocked_in_wait": self.parent_blocked_in_wait,
            "child_blocked_on_full_stdout": self.child_blocked_on_full_stdout,
            "child_blocked_on_empty_stdin": self.child_blocked_on_empty_stdin,
            "child_blocked_on_full_stderr": self.child_blocked_on_full_stderr,
            "bytes_to_stderr": self.bytes_to_stderr,
            "child_exit_before_first_write": self.child_exit_before_first_write,
            "child_exit_nonzero": self.child_exit_nonzero, "child_killed": self.child_killed,
            "child_sigpipe": self.child_sigpipe, "child_exit_zero_empty": self.child_exit_zero_empty,
            "format_ok": self.format_ok, "format_failed": self.format_failed,
            "short_writes": self.short_writes, "hangs": self.hangs, "unreaped": self.unreaped,
            "try_wait_in_exit_window": self.try_wait_in_exit_window,
            "parent_threads_max": self.parent_threads_max,
            "virtual_ticks": self.vticks,
            "bytes_to_child": self.bytes_to_child, "bytes_from_child": self.bytes_from_child,
        })
    }
}

struct Pipe {
    buf: VecDeque<u8>,
    cap: usize,
    rd_open: bool,
    wr_open: bool,
    /// Not a pipe at all (Stdio::null / inherit): writes vanish, reads see EOF.
    sink: bool,
}

impl Pipe {
    fn new(cap: usize, kind: StdioKind) -> Self {
        Pipe {
            buf: VecDeque::new(),
            cap: cap.max(1),
            rd_open: true,
            wr_open: kind == StdioKind::Piped,
            sink: kind != StdioKind::Piped,
        }
    }
    fn space(&self) -> usize {
        self.cap.saturating_sub(self.buf.len())
    }
}

pub const PARENT_OP_CAP: u64 = 2_000_000;

struct SimProc {
    plan: ProcPlan,
    reference: Arc<String>,
    pc: usize,
    now: u64,
    ready_at: u64,
    parent_calls: u64,
    stdin: Pipe,
    stdout: Pipe,
    stderr: Pipe,
    err_progress: usize,
    received: Vec<u8>,
    read_progress: usize,
    outbuf: VecDeque<u8>,
    wrote_any: bool,
    fmt_failed: bool,
    status: Option<i32>,
    waitable_at: u64,
    generation: u64,
    parent_threads: Vec<std::thread::ThreadId>,
    reaped: bool,
    handle_dropped: bool,
    hung: Option<&'static str>,
    first_parent_write_seen: bool,
    log: Vec<Ev>,
    stats: ProcStats,
    file_args: Vec<std::path::PathBuf>,
    emit_stdout: bool,
}

impl SimProc {
    fn ev(&mut self, who: char, what: &'static str, a: i64, b: i64) {
        self.log.push(Ev {
            t: self.now,
            who,
            what,
            a,
            b,
        });
    }

    fn exit_with(&mut self, raw: i32) {
        self.status = Some(raw);
        self.waitable_at = self.now.saturating_add(self.plan.exit_lag);
        self.stdin.rd_open = false;
        self.stdin.buf.clear();
        self.stdout.wr_open = false;
        self.stderr.wr_open = false;
        if !self.first_parent_write_seen {
            self.stats.child_exit_before_first_write += 1;
        }
        let sig = raw & 0x7f;
        if sig != 0 {
            self.stats.child_killed += 1;
        } else if (raw >> 8) & 0xff != 0 {
            self.stats.child_exit_nonzero += 1;
        } else if !self.wrote_any {
            self.stats.child_exit_zero_empty += 1;
        }
        self.ev('C', "exit", raw as i64, 0);
    }

    /// Try to execute the child's next op at time max(now, ready_at). Returns whether the child
    /// made progress; `false` means it is blocked (or gone).
    fn step_child(&mut self) -> bool {
        if self.status.is_some() {
            return false;
        }
        let t = self.now.max(self.ready_at);
        let op = match self.plan.script.get(self.pc) {
            Some(op) => op.clone(),
            None => Op::Exit(0),
        };
        let mut cost = self.plan.op_cost;
        let progressed = match op {
            Op::Delay(d) => {
                cost = d;
                self.pc += 1;
                self.now = t;
                self.ev('C', "delay", d as i64, 0);
                true
            }
            Op::Read(_) | Op::ReadToEof if !self.stdin.rd_open => {
                // reading a descriptor the child closed itself: EBADF, nothing arrives
                self.now = t;
                self.read_progress = 0;
                self.pc += 1;
                true
            }
            Op::Read(n) => {
                let want = n - self.read_progress;
                let take = want.min(self.stdin.buf.len());
                if take > 0 {
                    self.now = t;
                    self.received.extend(self.stdin.buf.drain(..take));
                    self.read_progress += take;
                    self.ev('C', "read", take as i64, 0);
                }
                let eof = self.stdin.buf.is_empty() && !self.stdin.wr_open;
                if self.read_progress >= n || eof {
                    self.now = t;
                    self.read_progress = 0;
                    self.pc += 1;
                    true
                } else if take > 0 {
                    true
                } else {
                    self.stats.child_blocked_on_empty_stdin += 1;
                    false
                }
            }
            Op::ReadToEof => {
                let take = self.stdin.buf.len();
                if take > 0 {
                    self.now = t;
                    self.received.extend(self.stdin.buf.drain(..));
                    self.ev('C', "read", take as i64, 0);
                }
                if !self.stdin.wr_open {
                    self.now = t;
                    self.pc += 1;
                    self.ev('C', "eof", self.received.len() as i64, 0);
                    true
                } else if take > 0 {
                    true
                } else {
                    self.stats.child_blocked_on_empty_stdin += 1;
                    false
                }
            }
            Op::Format => {
                self.now = t;
                self.pc += 1;
                let mut input = self.received.clone();
                // `rustfmt <file>`: the input is read when the child gets to it.
                for path in &self.file_args {
                    if let Ok(bytes) = std::fs::read(path) {
                        input.extend(bytes);
                    }
                }
                let formatted = std::str::from_utf8(&input).ok().and_then(format_source);
                match formatted {
                    Some(text) => {
                        self.stats.format_ok += 1;
                        self.ev('C', "format_ok", text.len() as i64, 0);
                        if self.emit_stdout || self.file_args.is_empty() {
                            self.outbuf.extend(text.bytes());
                        } else {
                            for path in &self.file_args {
                                let _ = std::fs::write(path, text.as_bytes());
                            }
                        }
                    }
                    None => {
                        self.stats.format_failed += 1;
                        self.fmt_failed = true;
                        self.ev('C', "format_failed", input.len() as i64, 0);
                    }
                }
                true
            }
            Op::EmitRef(permille) => {
                self.now = t;
                self.pc += 1;
                let n = emit_ref_len(&self.reference, permille);
                let bytes: Vec<u8> = self.reference.as_bytes()[..n].to_vec();
                self.outbuf.extend(bytes);
                self.ev('C', "emit_ref", n as i64, 0);
                true
            }
            Op::EmitGarbage(n) => {
                self.now = t;
                self.pc += 1;
                self.outbuf
                    .extend(b"%% not rust @@ ".iter().cycle().take(n).copied());
                true
            }
            Op::EmitNonUtf8(n) => {
                self.now = t;
                self.pc += 1;
                self.outbuf.extend(std::iter::repeat(0xffu8).take(n));
                true
            }
            Op::Flush => {
                if self.outbuf.is_empty() {
                    self.now = t;
                    self.pc += 1;
                    true
                } else if !self.file_args.is_empty() && !self.emit_stdout {
                    // `rustfmt <file>` rewrites the file in place: what the child has produced so
                    // far is what the file holds from now on (a child that dies next leaves it so)
                    self.now = t;
                    let bytes: Vec<u8> = self.outbuf.drain(..).collect();
                    for path in &self.file_args {
                        let _ = std::fs::write(path, &bytes);
                    }
                    self.wrote_any = true;
                    self.stats.bytes_from_child += bytes.len() as u64;
                    self.ev('C', "rewrite_file", bytes.len() as i64, 0);
                    self.pc += 1;
                    true
                } else if self.stdout.sink {
                    self.now = t;
                    self.outbuf.clear();
                    self.pc += 1;
                    true
                } else if !self.stdout.rd_open {
                    // EPIPE / SIGPIPE in the child
                    self.now = t;
                    self.stats.child_sigpipe += 1;
                    self.exit_with(libc::SIGPIPE);
                    true
                } else {
                    let n = self
                        .stdout
                        .space()
                        .min(self.plan.chunk.max(1))
                        .min(self.outbuf.len());
                    if n == 0 {
                        self.stats.child_blocked_on_full_stdout += 1;
                        false
                    } else {
                        self.now = t;
                        self.stdout.buf.extend(self.outbuf.drain(..n));
                        self.wrote_any = true;
                        self.stats.bytes_from_child += n as u64;
                        self.ev('C', "write", n as i64, 0);
                        if self.outbuf.is_empty() {
                            self.pc += 1;
                        }
                        true
                    }
                }
            }
            Op::Stderr(total) => {
                let remaining = total - self.err_progress;
                if remaining == 0 || self.stderr.sink {
                    self.now = t;
                    self.stats.bytes_to_stderr += remaining as u64;
                    self.err_progress = 0;
                    self.pc += 1;
                    true
                } else if !self.stderr.rd_open {
                    self.now = t;
                    self.stats.child_sigpipe += 1;
                    self.exit_with(libc::SIGPIPE);
                    true
                } else {
                    let n = self.stderr.space().min(self.plan.chunk.max(1)).min(remaining);
                    if n == 0 {
                        self.stats.child_blocked_on_full_stderr += 1;
                        false
                    } else {
                        self.now = t;
                        self.stderr
                            .buf
                            .extend(b"error: simulated diagnostic\n".iter().cycle().take(n));
                        self.err_progress += n;
                        self.stats.bytes_to_stderr += n as u64;
                        self.ev('C', "write_stderr", n as i64, 0);
                        if self.err_progress == total {
                            self.err_progress = 0;
                            self.pc += 1;
                        }
                        true
                    }
                }
            }
            Op::CloseStdin => {
                self.now = t;
                self.pc += 1;
                self.stdin.rd_open = false;
                self.stdin.buf.clear();
                self.ev('C', "close_stdin", 0, 0);
                true
            }
            Op::CloseStdout => {
                self.now = t;
                self.pc += 1;
                self.stdout.wr_open = false;
                self.ev('C', "close_stdout", 0, 0);
                true
            }
            Op::Exit(code) => {
                self.now = t;
                self.exit_with((code & 0xff) << 8);
                true
            }
            Op::ExitAuto => {
                self.now = t;
                let code = if self.fmt_failed { 1 } else { 0 };
                self.exit_with(code << 8);
                true
            }
            Op::Kill(sig) => {
                self.now = t;
                self.exit_with(sig & 0x7f);
                true
            }
        };
        if progressed {
            self.stats.child_ops += 1;
            self.ready_at = self.now.saturating_add(cost);
        }
        progressed
    }

    fn run_due(&mut self) {
        while self.status.is_none() && self.ready_at <= self.now {
            if !self.step_child() {
                break;
            }
        }
    }

    fn parent_tick(&mut self, what: &'static str, a: i64) {
        let costs = &self.plan.parent_costs;
        let cost = if costs.is_empty() {
            1
        } else {
            costs[(self.parent_calls as usize) % costs.len()]
        };
        self.parent_calls += 1;
        self.generation += 1;
        let me = std::thread::current().id();
        if !self.parent_threads.contains(&me) {
            self.parent_threads.push(me);
            self.stats.parent_threads_max = self.parent_threads.len() as u64;
        }
        self.stats.parent_ops += 1;
        self.now = self.now.saturating_add(cost);
        self.ev('P', what, a, 0);
        self.run_due();
    }

    /// The parent cannot continue; let the child run. `false`: the child cannot either.
    /// Time the blocked parent spends waiting passes on its own monotonic clock too
    /// (1 tick = 1 microsecond), so `Instant`-based timing around the formatter sees it.
    fn advance_child(&mut self) -> bool {
        if self.status.is_some() {
            return false;
        }
        let before = self.now;
        let progressed = self.step_child();
        if self.now > before {
            crate::seams::advance_thread_clock((self.now - before).saturating_mul(1000));
        }
        progressed
    }
}

/// Handle shared by the `Child`, `ChildStdin`, `ChildStdout` objects of one spawn.
pub struct SimChild {
    inner: Mutex<SimProc>,
    /// Signalled by every parent op: a blocked op of another parent thread may be able to go on.
    changed: std::sync::Condvar,
    /// Scheduling hook (C18): called on entry of every parent op, outside the lock.
    on_op: Option<Box<dyn Fn(&'static str) + Send + Sync>>,
}

/// How long a blocked parent op waits (real time) for another parent thread to change the
/// state before the run is declared hung. Only reached when neither the calling thread nor the
/// child can make progress, i.e. never on the paths of a single-threaded parent that terminates.
const OTHER_THREAD_GRACE: std::time::Duration = std::time::Duration::from_millis(250);

impl SimChild {
    fn lock(&self) -> std::sync::MutexGuard<'_, SimProc> {
        self.inner.lock().unwrap_or_else(|e| e.into_inner())
    }

    /// The calling parent thread and the child are both stuck. If another parent thread acts
    /// within the grace period, retry; otherwise this is a hang (sentinel panic).
    fn stuck<'a>(
        &'a self,
        mut p: std::sync::MutexGuard<'a, SimProc>,
        what: &'static str,
    ) -> std::sync::MutexGuard<'a, SimProc> {
        let generation = p.generation;
        // Another parent thread can only exist if the code under test has started one in this
        // process (in this call, or earlier and kept in a pool) or this thread is itself a helper:
        // "no simulated thread ever started a thread and this is the only thread that ever
        // touched the child" means nobody else can come to the rescue.
        let alone = crate::seams::helper_threads_in_process() == 0
            && crate::seams::threads_created_by_current_thread() == 0
            && p.parent_threads.len() <= 1
            && p.parent_threads.first() == Some(&std::thread::current().id());
        let deadline = std::time::Instant::now()
            + if alone {
                std::time::Duration::ZERO
            } else {
                OTHER_THREAD_GRACE
            };
        loop {
            let now = std::time::Instant::now();
            if now >= deadline {
                break;
            }
            let (guard, _) = self
                .changed
                .wait_timeout(p, deadline - now)
                .unwrap_or_else(|e| e.into_inner());
            p = guard;
            if p.generation != generation {
                return p;
            }
        }
        p.hung = Some(what);
        p.stats.hangs += 1;
        p.ev('S', what, 0, 0);
        drop(p);
        std::panic::panic_any(Sentinel::Hang(what))
    }

    fn hook(&self, site: &'static str) {
        if let Some(f) = &self.on_op {
            f(site);
        }
    }

    /// The parent slept: virtual time passes (1 tick = 1 microsecond of sleep) and the child
    /// does whatever becomes due meanwhile.
    pub fn parent_slept(&self, ns: u64) {
        let mut p = self.lock();
        p.now = p.now.saturating_add((ns / 1000).max(1));
        p.generation += 1;
        p.ev('P', "slept_us", (ns / 1000) as i64, 0);
        p.run_due();
        drop(p);
        self.changed.notify_all();
    }

    pub fn snapshot(&self) -> ProcReport {
        let mut p = self.lock();
        p.stats.vticks = p.now;
        if p.status.is_none() || !p.reaped {
            p.stats.unreaped = 1;
        }
        ProcReport {
            log: p.log.clone(),
            stats: p.stats.clone(),
            hung: p.hung,
            status: p.status,
            reaped: p.reaped,
            received: p.received.clone(),
            handle_dropped: p.handle_dropped,
            pc: p.pc,
        }
    }
}

#[derive(Debug, Clone)]
pub struct ProcReport {
    pub log: Vec<Ev>,
    pub stats: ProcStats,
    pub hung: Option<&'static str>,
    pub status: Option<i32>,
    pub reaped: bool,
    pub received: Vec<u8>,
    pub handle_dropped: bool,
    pub pc: usize,
}

impl ChildIo for SimChild {
    fn write(&self, fd: Fd, buf: &[u8]) -> io::Result<usize> {
        self.hook("seam:write");
        if fd != Fd::Stdin {
            return Err(io::ErrorKind::InvalidInput.into());
        }
        let mut p = self.lock();
        p.parent_tick("write", buf.len() as i64);
        self.changed.notify_all();
        if p.parent_calls > PARENT_OP_CAP {
            drop(p);
            std::panic::panic_any(Sentinel::StepCap);
        }
        p.first_parent_write_seen = true;
        if buf.is_empty() {
            return Ok(0);
        }
        let mut accepted = 0usize;
        loop {
            if !p.stdin.wr_open {
                return Err(io::Error::from_raw_os_error(libc::EBADF));
            }
            if !p.stdin.rd_open {
                if accepted > 0 {
                    p.stats.epipe_mid_write += 1;
                    p.ev('P', "write_partial_then_reader_gone", accepted as i64, 0);
                    return Ok(accepted);
                }
                p.stats.epipe += 1;
                p.ev('P', "epipe", 0, 0);
                return Err(io::Error::from_raw_os_error(libc::EPIPE));
            }
            let n = p.stdin.space().min(buf.len() - accepted);
            if n > 0 {
                p.stdin.buf.extend(&buf[accepted..accepted + n]);
                accepted += n;
                p.stats.bytes_to_child += n as u64;
                if accepted == buf.len() {
                    p.ev('P', "wrote", accepted as i64, 0);
                    return Ok(accepted);
                }
                if p.plan.short_writes {
                    p.stats.short_writes += 1;
                    p.ev('P', "short_write", accepted as i64, 0);
                    return Ok(accepted);
                }
            }
            p.stats.parent_blocked_on_full_stdin += 1;
            if !p.advance_child() {
                if p.status.is_some() {
                    continue; // reader is gone now: reported at the top of the loop
                }
                p = self.stuck(p, "hang:parent_write_stdin_full_child_blocked");
            }
        }
    }

    fn flush(&self, _fd: Fd) -> io::Result<()> {
        Ok(())
    }

    fn read(&self, fd: Fd, buf: &mut [u8]) -> io::Result<usize> {
        self.hook("seam:read");
        let mut p = self.lock();
        p.parent_tick("read", buf.len() as i64);
        self.changed.notify_all();
        if p.parent_calls > PARENT_OP_CAP {
            drop(p);
            std::panic::panic_any(Sentinel::StepCap);
        }
        if buf.is_empty() {
            return Ok(0);
        }
        match fd {
            Fd::Stdin => Err(io::ErrorKind::InvalidInput.into()),
            Fd::Stdout => loop {
                if !p.stdout.buf.is_empty() {
                    let mut n = buf.len().min(p.stdout.buf.len());
                    if p.plan.read_max > 0 {
                        n = n.min(p.plan.read_max);
                    }
                    for (dst, src) in buf.iter_mut().zip(p.stdout.buf.drain(..n)) {
                        *dst = src;
                    }
                    p.ev('P', "got", n as i64, 0);
                    return Ok(n);
                }
                if !p.stdout.wr_open {
                    p.ev('P', "got_eof", 0, 0);
                    return Ok(0);
                }
                p.stats.parent_blocked_on_empty_stdout += 1;
                if !p.advance_child() {
                    p = self.stuck(p, "hang:parent_read_stdout_child_blocked");
                }
            },
            Fd::Stderr => loop {
                if !p.stderr.buf.is_empty() {
                    let n = buf.len().min(p.stderr.buf.len());
                    for (dst, src) in buf.iter_mut().zip(p.stderr.buf.drain(..n)) {
                        *dst = src;
                    }
                    p.ev('P', "got_stderr", n as i64, 0);
                    return Ok(n);
                }
                if !p.stderr.wr_open {
                    return Ok(0);
                }
                if !p.advance_child() {
                    p = self.stuck(p, "hang:parent_read_stderr_child_blocked");
                }
            },
        }
    }

    fn close(&self, fd: Fd) {
        // No scheduling point: this runs from Drop, possibly while unwinding.
        let mut p = self.lock();
        p.run_due();
        p.generation += 1;
        self.changed.notify_all();
        match fd {
            Fd::Stdin => {
                if p.stdin.wr_open {
                    p.stdin.wr_open = false;
                    p.ev('P', "close_stdin", 0, 0);
                }
            }
            Fd::Stdout => {
                if p.stdout.rd_open {
                    p.stdout.rd_open = false;
                    p.stdout.buf.clear();
                    p.ev('P', "close_stdout", 0, 0);
                }
            }
            Fd::Stderr => {
                if p.stderr.rd_open {
                    p.stderr.rd_open = false;
                    p.stderr.buf.clear();
                    p.ev('P', "close_stderr", 0, 0);
                }
            }
        }
    }

    fn read2(&self, stdout: &mut Vec<u8>, stderr: &mut Vec<u8>) -> io::Result<()> {
        self.hook("seam:read2");
        let mut p = self.lock();
        p.parent_tick("read2", 0);
        self.changed.notify_all();
        loop {
            let a = p.stdout.buf.len();
            let b = p.stderr.buf.len();
            if a > 0 {
                stdout.extend(p.stdout.buf.drain(..));
            }
            if b > 0 {
                stderr.extend(p.stderr.buf.drain(..));
            }
            if a + b > 0 {
                p.ev('P', "got2", a as i64, b as i64);
            }
            if !p.stdout.wr_open && !p.stderr.wr_open {
                p.ev('P', "got2_eof", 0, 0);
                return Ok(());
            }
            if a + b == 0 {
                p.stats.parent_blocked_on_empty_stdout += 1;
                if !p.advance_child() {
                    p = self.stuck(p, "hang:parent_read2_child_blocked");
                }
            } else {
                p.run_due();
            }
        }
    }

    fn wait(&self) -> io::Result<ExitStatus> {
        self.hook("seam:wait");
        let mut p = self.lock();
        p.parent_tick("wait", 0);
        self.changed.notify_all();
        loop {
            if let Some(raw) = p.status {
                p.now = p.now.max(p.waitable_at);
                p.reaped = true;
                p.ev('P', "reaped", raw as i64, 0);
                return Ok(ExitStatus::from_raw(raw));
            }
            p.stats.parent_blocked_in_wait += 1;
            if !p.advance_child() {
                p = self.stuck(p, "hang:parent_wait_child_blocked");
            }
        }
    }

    fn try_wait(&self) -> io::Result<Option<ExitStatus>> {
        self.hook("seam:try_wait");
        let mut p = self.lock();
        p.parent_tick("try_wait", 0);
        self.changed.notify_all();
        if p.parent_calls > PARENT_OP_CAP {
            drop(p);
            std::panic::panic_any(Sentinel::StepCap);
        }
        match p.status {
            Some(raw) if p.now >= p.waitable_at => {
                p.reaped = true;
                p.ev('P', "try_wait_reaped", raw as i64, 0);
                Ok(Some(ExitStatus::from_raw(raw)))
            }
            Some(_) => {
                // pipe ends are closed already, but the child is not waitable yet
                p.stats.try_wait_in_exit_window += 1;
                p.ev('P', "try_wait_in_exit_window", 0, 0);
                Ok(None)
            }
            None => Ok(None),
        }
    }

    fn kill(&self) -> io::Result<()> {
        self.hook("seam:kill");
        let mut p = self.lock();
        p.parent_tick("kill", 0);
        self.changed.notify_all();
        if p.status.is_none() {
            p.exit_with(libc::SIGKILL);
        }
        Ok(())
    }

    fn id(&self) -> u32 {
        4242
    }

    fn handle_dropped(&self) {
        let mut p = self.lock();
        p.handle_dropped = true;
    }
}

/// Create the simulated child for `spec` according to `plan`; `reference` is the program the
/// formatter is expected to be given (used by `EmitRef`).
pub fn spawn(
    plan: &ProcPlan,
    spec: &SpawnSpec,
    reference: Arc<String>,
    on_op: Option<Box<dyn Fn(&'static str) + Send + Sync>>,
) -> io::Result<Arc<SimChild>> {
    match plan.spawn {
        SpawnPlan::Ok => {}
        SpawnPlan::NotFound => return Err(io::Error::from_raw_os_error(libc::ENOENT)),
        SpawnPlan::PermissionDenied => return Err(io::Error::from_raw_os_error(libc::EACCES)),
        SpawnPlan::Again => return Err(io::Error::from_raw_os_error(libc::EAGAIN)),
        SpawnPlan::NoMem => return Err(io::Error::from_raw_os_error(libc::ENOMEM)),
    }
    let mut file_args = Vec::new();
    let mut emit_stdout = false;
    let mut skip_value = false;
    for arg in &spec.args {
        let s = arg.to_string_lossy();
        if skip_value {
            // the value of the preceding option (`--edition 2021`, `--config a=b`, ...)
            skip_value = false;
            if s == "stdout" {
                emit_stdout = true;
            }
            continue;
        }
        if s == "--emit=stdout" {
            emit_stdout = true;
        } else if matches!(
            s.as_ref(),
            "--emit" | "--edition" | "--config" | "--config-path" | "--color" | "--file-lines" | "--print-config" | "--style-edition"
        ) {
            skip_value = true;
        } else if !s.starts_with('-') {
            let path = std::path::PathBuf::from(arg);
            let path = match (&spec.cwd, path.is_relative()) {
                (Some(cwd), true) => cwd.join(path),
                _ => path,
            };
            file_args.push(path);
        }
    }
    let mut stats = ProcStats::default();
    stats.spawns = 1;
    let proc = SimProc {
        plan: plan.clone(),
        reference,
        pc: 0,
        now: 0,
        ready_at: 0,
        parent_calls: 0,
        stdin: {
            let mut pipe = Pipe::new(plan.stdin_cap, spec.stdin);
            // For stdin the parent is the writer.
            pipe.wr_open = spec.stdin == StdioKind::Piped;
            pipe
        },
        stdout: Pipe::new(plan.stdout_cap, spec.stdout),
        stderr: Pipe::new(plan.stdout_cap, spec.stderr),
        err_progress: 0,
        received: Vec::new(),
        read_progress: 0,
        outbuf: VecDeque::new(),
        wrote_any: false,
        fmt_failed: false,
        status: None,
        waitable_at: 0,
        generation: 0,
        parent_threads: Vec::new(),
        reaped: false,
        handle_dropped: false,
        hung: None,
        first_parent_write_seen: false,
        log: Vec::new(),
        stats,
        file_args,
        emit_stdout,
    };
    Ok(Arc::new(SimChild {
        inner: Mutex::new(proc),
        changed: std::sync::Condvar::new(),
        on_op,
    }))
}

pub fn hash_events(h: &mut crate::rng::Hasher, log: &[Ev]) {
    for e in log {
        h.u64(e.t);
        h.u64(e.who as u64);
        h.str(e.what);
        h.u64(e.a as u64);
        h.u64(e.b as u64);
    }
}

pub fn format_events(log: &[Ev]) -> Vec<String> {
    log.iter()
        .map(|e| format!("t={} {} {} {} {}", e.t, e.who, e.what, e.a, e.b))
        .collect()
}
