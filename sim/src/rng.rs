//! One integer decides everything: splitmix64 for derivation, xoshiro256** for streams.

pub fn splitmix64(state: &mut u64) -> u64 {
    *state = state.wrapping_add(0x9E37_79B9_7F4A_7C15);
    let mut z = *state;
    z = (z ^ (z >> 30)).wrapping_mul(0xBF58_476D_1CE4_E5B9);
    z = (z ^ (z >> 27)).wrapping_mul(0x94D0_49BB_1331_11EB);
    z ^ (z >> 31)
}

/// Derive a sub-seed from a seed and a list of labels.
pub fn mix(seed: u64, labels: &[u64]) -> u64 {
    let mut s = seed ^ 0xD6E8_FEB8_6659_FD93;
    let mut out = splitmix64(&mut s);
    for l in labels {
        s ^= l.wrapping_mul(0xA076_1D64_78BD_642F);
        out ^= splitmix64(&mut s).rotate_left(17);
        s = s.wrapping_add(out);
    }
    splitmix64(&mut s) ^ out
}

pub fn label(text: &str) -> u64 {
    fnv1a(text.as_bytes())
}

pub fn fnv1a(bytes: &[u8]) -> u64 {
    let mut h = 0xcbf2_9ce4_8422_2325u64;
    for b in bytes {
        h ^= *b as u64;
        h = h.wrapping_mul(0x0000_0100_0000_01B3);
    }
    h
}

/// Incremental FNV-1a used for event-log hashes.
#[derive(Clone, Copy, Debug)]
pub struct Hasher(pub u64);

impl Default for Hasher {
    fn default() -> Self {
        Hasher(0xcbf2_9ce4_8422_2325)
    }
}

impl Hasher {
    pub fn bytes(&mut self, bytes: &[u8]) {
        for b in bytes {
            self.0 ^= *b as u64;
            self.0 = self.0.wrapping_mul(0x0000_0100_0000_01B3);
        }
        // separator
        self.0 ^= 0xff;
        self.0 = self.0.wrapping_mul(0x0000_0100_0000_01B3);
    }
    pub fn str(&mut self, s: &str) {
        self.bytes(s.as_bytes())
    }
    pub fn u64(&mut self, v: u64) {
        self.bytes(&v.to_le_bytes())
    }
}

#[derive(Clone, Debug)]
pub struct Rng {
    s: [u64; 4],
}

impl Rng {
    pub fn new(seed: u64) -> Self {
        let mut sm = seed;
        let s = [
            splitmix64(&mut sm),
            splitmix64(&mut sm),
            splitmix64(&mut sm),
            splitmix64(&mut sm),
        ];
        Rng { s }
    }

    pub fn next_u64(&mut self) -> u64 {
        let result = self.s[1].wrapping_mul(5).rotate_left(7).wrapping_mul(9);
        let t = self.s[1] << 17;
        self.s[2] ^= self.s[0];
        self.s[3] ^= self.s[1];
        self.s[1] ^= self.s[2];
        self.s[0] ^= self.s[3];
        self.s[2] ^= t;
        self.s[3] = self.s[3].rotate_left(45);
        result
    }

    /// Uniform in 0..n (n > 0).
    pub fn below(&mut self, n: u64) -> u64 {
        debug_assert!(n > 0);
        // Multiply-shift; bias is irrelevant for our purposes but keep it small.
        ((self.next_u64() as u128 * n as u128) >> 64) as u64
    }

    pub fn range(&mut self, lo: u64, hi_inclusive: u64) -> u64 {
        lo + self.below(hi_inclusive - lo + 1)
    }

    pub fn usize(&mut self, lo: usize, hi_inclusive: usize) -> usize {
        self.range(lo as u64, hi_inclusive as u64) as usize
    }

    pub fn chance(&mut self, permille: u64) -> bool {
        self.below(1000) < permille
    }

    pub fn pick<'a, T>(&mut self, items: &'a [T]) -> &'a T {
        &items[self.below(items.len() as u64) as usize]
    }

    pub fn bool(&mut self) -> bool {
        self.next_u64() & 1 == 1
    }

    pub fn fill(&mut self, buf: &mut [u8]) {
        for chunk in buf.chunks_mut(8) {
            let v = self.next_u64().to_le_bytes();
            chunk.copy_from_slice(&v[..chunk.len()]);
        }
    }
}
