//! Baton scheduler over real OS threads (DESIGN §1.3).
//!
//! Simulated threads are real `std::thread`s, so thread-locals keep their real semantics, but only
//! the baton holder executes. At every scheduling point the run's PRNG decides who continues, so
//! one seed is one exactly repeatable interleaving.

use crate::rng::{Hasher, Rng};
use crate::Sentinel;
use serde::{Deserialize, Serialize};
use std::sync::{Condvar, Mutex};
use std::time::{Duration, Instant};

#[derive(Debug, Clone, Serialize, Deserialize, PartialEq, Eq)]
#[serde(tag = "mode", rename_all = "snake_case")]
pub enum Policy {
    /// At each point switch to another runnable thread with this probability.
    Random { preempt_permille: u64 },
    /// PCT-like: strict priorities with `depth` priority-drop points at the given global steps.
    Pct { change_points: Vec<u64> },
    /// No baton at all: the simulated threads run truly concurrently on the OS scheduler.
    /// NOT deterministic and not replayable - a supplementary mode for windows of a few
    /// machine instructions that contain neither a hook nor an allocation (e.g. two adjacent
    /// atomic stores); a divergence found this way is still two different outcomes for equal
    /// inputs, reported with `replay_exact: false`.
    Free,
}

#[derive(Debug, Clone, Serialize, Deserialize, PartialEq, Eq)]
pub struct SchedPlan {
    pub seed: u64,
    pub policy: Policy,
    /// (simulated thread, k): the k-th point of that thread panics (a caller dying mid-call).
    pub crash_points: Vec<(usize, u64)>,
    pub step_cap: u64,
}

#[derive(Debug, Clone, Copy, PartialEq, Eq)]
enum Status {
    Runnable,
    Done,
}

struct State {
    rng: Rng,
    policy: Policy,
    crash_points: Vec<(usize, u64)>,
    step_cap: u64,
    current: Option<usize>,
    status: Vec<Status>,
    started: usize,
    priorities: Vec<i64>,
    lowest: i64,
    step: u64,
    per_thread: Vec<u64>,
    in_call: Vec<bool>,
    hasher: Hasher,
    log: Option<Vec<(u64, usize, &'static str)>>,
    switches: u64,
    switches_inside_call: u64,
    crashes_fired: u64,
    stall_handoffs: u64,
    os_tids: Vec<i32>,
    abort: Option<&'static str>,
}

pub struct Sched {
    state: Mutex<State>,
    cv: Condvar,
    n: usize,
    /// `Policy::Free`: scheduling points must not synchronise the threads in any way
    free: bool,
    free_steps: std::sync::atomic::AtomicU64,
}

#[derive(Debug, Clone, Default)]
pub struct SchedReport {
    pub steps: u64,
    pub switches: u64,
    pub switches_inside_call: u64,
    pub crashes_fired: u64,
    pub stall_handoffs: u64,
    pub log_hash: u64,
    pub log: Vec<String>,
    pub abort: Option<&'static str>,
}

const STALL: Duration = Duration::from_secs(30);
/// The baton holder made no scheduling progress for this long: assume it is blocked on something
/// outside the seams (a real lock owned by a parked thread) and let a parked thread run as well.
const HANDOFF: Duration = Duration::from_secs(3);
/// Poll interval of parked threads; consecutive polls that find the baton holder asleep in
/// the kernel (state S in /proc) without any scheduling progress also count as "blocked".
const POLL: Duration = Duration::from_millis(3);

fn os_thread_state(os_tid: i32) -> Option<char> {
    let stat = std::fs::read_to_string(format!("/proc/self/task/{os_tid}/stat")).ok()?;
    let rest = &stat[stat.rfind(')')? + 1..];
    rest.trim_start().chars().next()
}

impl Sched {
    pub fn new(n: usize, plan: &SchedPlan, record: bool) -> Self {
        let mut rng = Rng::new(plan.seed);
        // random distinct priorities (used by the PCT policy only)
        let mut priorities: Vec<i64> = (0..n as i64).collect();
        for i in (1..n).rev() {
            let j = rng.below(i as u64 + 1) as usize;
            priorities.swap(i, j);
        }
        Sched {
            state: Mutex::new(State {
                rng,
                policy: plan.policy.clone(),
                crash_points: plan.crash_points.clone(),
                step_cap: plan.step_cap,
                current: None,
                status: vec![Status::Runnable; n],
                started: 0,
                priorities,
                lowest: -1,
                step: 0,
                per_thread: vec![0; n],
                in_call: vec![false; n],
                hasher: Hasher::default(),
                log: record.then(Vec::new),
                switches: 0,
                switches_inside_call: 0,
                crashes_fired: 0,
                stall_handoffs: 0,
                os_tids: vec![0; n],
                abort: None,
            }),
            cv: Condvar::new(),
            n,
            free: plan.policy == Policy::Free,
            free_steps: std::sync::atomic::AtomicU64::new(0),
        }
    }

    fn lock(&self) -> std::sync::MutexGuard<'_, State> {
        self.state.lock().unwrap_or_else(|e| e.into_inner())
    }

    fn pick(state: &mut State, me: Option<usize>) -> Option<usize> {
        let runnable: Vec<usize> = (0..state.status.len())
            .filter(|t| state.status[*t] == Status::Runnable)
            .collect();
        if runnable.is_empty() {
            return None;
        }
        match &state.policy {
            Policy::Random { preempt_permille } => {
                let p = *preempt_permille;
                match me {
                    Some(me) if state.status[me] == Status::Runnable => {
                        let others: Vec<usize> = runnable.iter().copied().filter(|t| *t != me).collect();
                        if !others.is_empty() && state.rng.chance(p) {
                            Some(*state.rng.pick(&others))
                        } else {
                            Some(me)
                        }
                    }
                    _ => Some(*state.rng.pick(&runnable)),
                }
            }
            Policy::Pct { change_points } => {
                if let Some(me) = me {
                    if change_points.contains(&state.step) {
                        state.priorities[me] = state.lowest;
                        state.lowest -= 1;
                    }
                }
                runnable.iter().copied().max_by_key(|t| state.priorities[*t])
            }
            Policy::Free => me.or_else(|| runnable.first().copied()),
        }
    }

    /// Block until this simulated thread holds the baton. The last thread to arrive starts the run.
    pub fn thread_start(&self, tid: usize) {
        let _quiet = crate::seams::AllocPointsSuspended::new();
        let mut s = self.lock();
        s.os_tids[tid] = unsafe { libc::syscall(libc::SYS_gettid) } as i32;
        s.started += 1;
        if s.policy == Policy::Free {
            // start together, then never wait again
            if s.started == self.n {
                s.current = Some(tid);
                self.cv.notify_all();
            }
            while s.started < self.n && s.abort.is_none() {
                let (guard, _) = self
                    .cv
                    .wait_timeout(s, Duration::from_millis(50))
                    .unwrap_or_else(|e| e.into_inner());
                s = guard;
            }
            return;
        }
        if s.started == self.n {
            let first = Self::pick(&mut s, None);
            s.current = first;
            self.cv.notify_all();
        }
        self.wait_for_baton(s, tid);
    }

    fn wait_for_baton<'a>(&'a self, mut s: std::sync::MutexGuard<'a, State>, tid: usize) {
        // the timed waits below belong to the harness: real clock, not the thread's virtual one
        let _real = crate::seams::RealClock::new();
        let mut waited = Duration::ZERO;
        let mut last_step = s.step;
        let mut holder_asleep = 0u32;
        loop {
            if s.abort.is_some() {
                drop(s);
                std::panic::panic_any(Sentinel::Abort);
            }
            if s.current == Some(tid) {
                return;
            }
            let t0 = Instant::now();
            let (guard, _) = self
                .cv
                .wait_timeout(s, POLL)
                .unwrap_or_else(|e| e.into_inner());
            s = guard;
            if s.step != last_step {
                last_step = s.step;
                waited = Duration::ZERO;
                holder_asleep = 0;
            } else {
                waited += t0.elapsed();
                // Is the baton holder asleep in the kernel (e.g. on a futex) instead of computing?
                // The /proc read happens without the scheduler's lock: a holder that merely
                // waits for this lock (to pass a scheduling point) must not look blocked.
                let holder = match s.current {
                    Some(h) if h != tid && s.os_tids[h] != 0 => Some((h, s.os_tids[h])),
                    _ => None,
                };
                let step_seen = s.step;
                drop(s);
                let asleep = holder
                    .map(|(_, os_tid)| os_thread_state(os_tid) == Some('S'))
                    .unwrap_or(false);
                s = self.lock();
                if s.step != step_seen || s.current != holder.map(|(h, _)| h) || s.current == Some(tid) {
                    // things moved while we looked
                    last_step = s.step;
                    waited = Duration::ZERO;
                    holder_asleep = 0;
                    continue;
                }
                holder_asleep = if asleep { holder_asleep + 1 } else { 0 };
                if (waited > HANDOFF || holder_asleep >= 6)
                    && s.current != Some(tid)
                    && s.status[tid] == Status::Runnable
                    && s.started == self.n
                {
                    // Take the baton: the previous holder keeps running (it is blocked anyway)
                    // and queues up again at its next scheduling point.
                    s.stall_handoffs += 1;
                    s.hasher.str("STALL-HANDOFF");
                    s.current = Some(tid);
                    self.cv.notify_all();
                    return;
                }
                if waited > STALL {
                    s.abort = Some("HARNESS-STALL: no progress for 30 s (a real lock held across a scheduling point?)");
                    self.cv.notify_all();
                }
            }
        }
    }

    pub fn set_in_call(&self, tid: usize, v: bool) {
        if self.free {
            return;
        }
        let _quiet = crate::seams::AllocPointsSuspended::new();
        self.lock().in_call[tid] = v;
    }

    /// A scheduling point of simulated thread `tid`.
    pub fn point(&self, tid: usize, site: &'static str) {
        self.point_inner(tid, site, true)
    }

    /// A scheduling point reached from a context that must not unwind (an interposed libc
    /// function): no crash injection, and an aborted run simply lets the thread go on.
    pub fn point_no_unwind(&self, tid: usize, site: &'static str) {
        let _ = std::panic::catch_unwind(std::panic::AssertUnwindSafe(|| {
            self.point_inner(tid, site, false)
        }));
    }

    fn point_inner(&self, tid: usize, site: &'static str, may_crash: bool) {
        if self.free {
            self.free_steps.fetch_add(1, std::sync::atomic::Ordering::Relaxed);
            return;
        }
        let _quiet = crate::seams::AllocPointsSuspended::new();
        let mut s = self.lock();
        if s.abort.is_some() {
            drop(s);
            std::panic::panic_any(Sentinel::Abort);
        }
        if s.policy == Policy::Free {
            s.step += 1;
            s.per_thread[tid] += 1;
            if s.step > s.step_cap {
                s.abort = Some("step_cap");
                drop(s);
                std::panic::panic_any(Sentinel::Abort);
            }
            let k = s.per_thread[tid];
            if s.in_call[tid] && may_crash {
                if let Some(pos) = s.crash_points.iter().position(|(t, n)| *t == tid && *n == k) {
                    s.crash_points.remove(pos);
                    s.crashes_fired += 1;
                    drop(s);
                    std::panic::panic_any(Sentinel::Crash);
                }
            }
            return;
        }
        if s.current != Some(tid) {
            // The baton was taken away while this thread was blocked outside the seams.
            self.wait_for_baton(s, tid);
            s = self.lock();
        }
        s.step += 1;
        s.per_thread[tid] += 1;
        let step = s.step;
        s.hasher.u64(tid as u64);
        s.hasher.str(site);
        if let Some(log) = s.log.as_mut() {
            log.push((step, tid, site));
        }
        if s.step > s.step_cap {
            s.abort = Some("step_cap");
            self.cv.notify_all();
            drop(s);
            std::panic::panic_any(Sentinel::Abort);
        }
        let k = s.per_thread[tid];
        if s.in_call[tid] && may_crash {
            if let Some(pos) = s.crash_points.iter().position(|(t, n)| *t == tid && *n == k) {
                s.crash_points.remove(pos);
                s.crashes_fired += 1;
                s.hasher.str("CRASH");
                if let Some(log) = s.log.as_mut() {
                    log.push((step, tid, "CRASH"));
                }
                drop(s);
                std::panic::panic_any(Sentinel::Crash);
            }
        }
        let next = Self::pick(&mut s, Some(tid));
        if next != Some(tid) {
            s.switches += 1;
            if s.in_call[tid] {
                s.switches_inside_call += 1;
            }
            s.current = next;
            self.cv.notify_all();
            self.wait_for_baton(s, tid);
        }
    }

    pub fn thread_done(&self, tid: usize) {
        let _quiet = crate::seams::AllocPointsSuspended::new();
        let mut s = self.lock();
        s.status[tid] = Status::Done;
        if s.current == Some(tid) || s.current.is_none() {
            let next = Self::pick(&mut s, None);
            s.current = next;
        }
        self.cv.notify_all();
    }

    pub fn report(&self) -> SchedReport {
        let s = self.lock();
        SchedReport {
            steps: s.step + self.free_steps.load(std::sync::atomic::Ordering::Relaxed),
            switches: s.switches,
            switches_inside_call: s.switches_inside_call,
            crashes_fired: s.crashes_fired,
            stall_handoffs: s.stall_handoffs,
            log_hash: s.hasher.0,
            log: s
                .log
                .as_ref()
                .map(|l| l.iter().map(|(st, t, site)| format!("{st} T{t} {site}")).collect())
                .unwrap_or_default(),
            abort: s.abort,
        }
    }
}
