//! C18 — output is a pure function of source and options (DESIGN §3).
//!
//! One run = 1..3 simulated build-script processes (fresh OS processes of this binary, each with
//! its own environment, working directory, clock skew), each with 1..6 simulated threads under the
//! baton scheduler, each thread executing a queue of jobs drawn with replacement from a small
//! pool. Every outcome is compared with the golden table filled by pristine processes.

use crate::corpus::{self, Job, Opts, Outcome, ShaderRef};
use crate::procsim::{self, ProcPlan, SimChild};
use crate::rng::{self, Hasher, Rng};
use crate::sched::{Policy, Sched, SchedPlan};
use crate::{evidence, known, seams, Sentinel, Tier};
use serde::{Deserialize, Serialize};
use serde_json::json;
use std::collections::{BTreeMap, HashMap, HashSet};
use std::io::{Read, Write};
use std::path::PathBuf;
use std::sync::atomic::{AtomicU64, Ordering};
use std::sync::{Arc, Mutex};
use wgsl_to_wgpu::verif_hooks::{self, process::ChildIo, process::SpawnSpec, Backend};

// ---------------------------------------------------------------------------------------------
// Plans

#[derive(Debug, Clone, Serialize, Deserialize, PartialEq, Eq)]
pub struct ThreadPlan {
    /// every n-th heap allocation inside a library call is a scheduling point (0 = none)
    #[serde(default)]
    pub alloc_point_every: u64,
    /// The n-th formatter process this thread starts (1-based) cannot be started: a transient
    /// EAGAIN. The call it belongs to is compared with the second golden table ("formatter cannot
    /// be started"); every later call with the first.
    #[serde(default)]
    pub failing_spawns: Vec<u64>,
    /// what those spawns fail with: false = EAGAIN (resources), true = ENOENT (for a moment there
    /// is no such program: a toolchain being updated, a PATH race)
    #[serde(default)]
    pub spawn_error_not_found: bool,
    /// the name and stack size of the OS thread (None / 0 = unnamed, 16 MiB): what a call returns
    /// must not depend on which thread makes it
    #[serde(default)]
    pub name: Option<String>,
    #[serde(default)]
    pub stack_mib: u32,
    pub entropy: u64,
    /// indices into the pool
    pub jobs: Vec<usize>,
    /// positions in `jobs` whose call is made from a destructor while the thread unwinds from an
    /// unrelated panic (a scope guard that regenerates bindings on the way out)
    #[serde(default)]
    pub while_unwinding: Vec<usize>,
}

#[derive(Debug, Clone, Serialize, Deserialize, PartialEq, Eq)]
pub struct FmtPlan {
    pub stdin_cap: usize,
    pub stdout_cap: usize,
    pub chunk: usize,
    /// microseconds the (otherwise healthy) formatter thinks before it prints (0 = none)
    #[serde(default)]
    pub think_us: u64,
}

#[derive(Debug, Clone, Serialize, Deserialize, PartialEq, Eq)]
pub struct ProcessPlan {
    pub env: Vec<(String, String)>,
    /// 0 empty scratch dir, 1 scratch dir with rustfmt.toml and a decoy shader.wgsl, 2 "/", 3 deep
    /// dir, 4 a directory full of near misses and conventional neighbours (for code that lists
    /// directories)
    pub cwd_kind: u8,
    pub clock_skew_s: i64,
    pub clock_jump_s: i64,
    pub clock_jump_after: u64,
    /// CPUs the process believes it has (0 = the real number); a configuration, not a fault.
    #[serde(default)]
    pub cpus: usize,
    /// Virtual nanoseconds every scheduling point costs on the monotonic clock of the calling
    /// thread (0 = a fast machine): `Instant`-based budgets of the code under test read this.
    #[serde(default)]
    pub tick_ns: u64,
    pub threads: Vec<ThreadPlan>,
    pub sched: SchedPlan,
    pub fmt: FmtPlan,
    /// Files created before the calls ("$RUN/..." = inside the run's sandbox): the paths an
    /// earlier execution of the same plan looked for and did not find (file-probe seam).
    #[serde(default)]
    pub plant_files: Vec<String>,
    /// Directories ("$RUN/...") an earlier execution of the same plan listed: they exist before
    /// the calls and hold near misses of the include paths and conventional neighbours.
    #[serde(default)]
    pub plant_dirs: Vec<String>,
    /// How the process was started: 0 as `wgsl-sim c18-proc`, 1 through a hard link named
    /// `build-script-build` in the sandbox with cargo-like trailing arguments, 2 with a long
    /// argv[0] that does not exist as a path.
    #[serde(default)]
    pub argv_kind: u8,
    /// Who the process is (host name, user id, parent pid), derived from this number; 0 = the
    /// real identity of the harness.
    #[serde(default)]
    pub identity: u64,
}

#[derive(Debug, Clone, Serialize, Deserialize, PartialEq, Eq)]
pub struct RunPlan {
    pub pool: Vec<Job>,
    pub processes: Vec<ProcessPlan>,
}

/// What the worker process is given on stdin.
#[derive(Debug, Clone, Serialize, Deserialize)]
struct WorkerInput {
    pool: Vec<Job>,
    /// golden outcome hash per pool entry (0 = unknown: do not compare, return the full outcome)
    golden: Vec<u64>,
    process: ProcessPlan,
    record_log: bool,
    return_all_outcomes: bool,
    /// the directory TMPDIR points to for this run: must look the same after the calls
    #[serde(default)]
    tmp_dir: Option<String>,
    /// golden outcome hash per pool entry for a call whose formatter could not be started
    /// (0 = unknown: do not compare)
    #[serde(default)]
    golden_without_formatter: Vec<u64>,
}

#[derive(Debug, Clone, Serialize, Deserialize)]
pub struct JobResult {
    pub tid: usize,
    pub qidx: usize,
    pub pool_idx: usize,
    pub hash: u64,
    pub class: String,
    /// false: crashed by injection (excluded) or run aborted
    pub completed: bool,
    pub matches: bool,
    pub outcome: Option<Outcome>,
}

#[derive(Debug, Clone, Serialize, Deserialize, Default)]
pub struct WorkerOutput {
    pub results: Vec<JobResult>,
    pub log_hash: u64,
    pub steps: u64,
    pub switches: u64,
    pub switches_inside_call: u64,
    pub crashes_fired: u64,
    #[serde(default)]
    pub stall_handoffs: u64,
    pub abort: Option<String>,
    pub env_changed: Vec<String>,
    pub cwd_changed: bool,
    pub new_files: Vec<String>,
    #[serde(default)]
    pub new_files_in_tmp: Vec<String>,
    #[serde(default)]
    pub panic_hook_replaced: bool,
    pub entropy_requests: u64,
    pub realtime_reads: u64,
    pub formatter_spawns: u64,
    pub unreaped_children: u64,
    /// threads created by the code under test inside its calls (helper threads of a change);
    /// they are not under the scheduler's control
    #[serde(default)]
    pub helper_threads: u64,
    #[serde(default)]
    pub alloc_points: u64,
    #[serde(default)]
    pub virtual_sleeps: u64,
    /// what the calls wrote to the process's standard output (a build script's channel to cargo)
    #[serde(default)]
    pub stdout_written: Option<String>,
    /// process attributes that differ after the calls: umask, signal dispositions, resource limits
    #[serde(default)]
    pub process_attributes_changed: Vec<String>,
    /// informational: open file descriptors and threads after the calls minus before
    #[serde(default)]
    pub fds_delta: i64,
    #[serde(default)]
    pub threads_left_running: u64,
    /// paths the calls looked for and did not find ("$RUN/..." when inside the sandbox)
    #[serde(default)]
    pub probed_missing: Vec<String>,
    /// environment variables the calls asked for and that were not set
    #[serde(default)]
    pub probed_env: Vec<String>,
    /// directories the calls listed ("$RUN/..." when inside the sandbox)
    #[serde(default)]
    pub probed_dirs: Vec<String>,
    pub log: Vec<String>,
}

/// The same call, made from a destructor that runs because the thread is unwinding from an
/// unrelated panic. A panic of the call itself must not leave the destructor (that would abort
/// the process): it is caught inside and handed on afterwards.
fn call_while_unwinding(source: &str, job: &Job) -> std::thread::Result<Outcome> {
    struct Unrelated;
    struct OnTheWayOut<'a> {
        source: &'a str,
        job: &'a Job,
        slot: &'a Mutex<Option<std::thread::Result<Outcome>>>,
    }
    impl Drop for OnTheWayOut<'_> {
        fn drop(&mut self) {
            let r = std::panic::catch_unwind(std::panic::AssertUnwindSafe(|| {
                corpus::run_job(self.source, self.job.include_path.as_deref(), self.job.options)
            }));
            *self.slot.lock().unwrap() = Some(r);
        }
    }
    let slot = Mutex::new(None);
    let outer = std::panic::catch_unwind(std::panic::AssertUnwindSafe(|| {
        let _guard = OnTheWayOut { source, job, slot: &slot };
        std::panic::panic_any(Unrelated);
    }));
    debug_assert!(outer.is_err());
    let taken = slot.lock().unwrap().take();
    taken.unwrap_or_else(|| Err(Box::new("the destructor did not run")))
}

/// Process attributes a library call has no business changing.
fn process_attributes() -> Vec<(String, String)> {
    let mut v = Vec::new();
    unsafe {
        let mask = libc::umask(0o022);
        libc::umask(mask);
        v.push(("umask".to_string(), format!("{mask:o}")));
        for (name, sig) in [
            ("SIGHUP", libc::SIGHUP),
            ("SIGINT", libc::SIGINT),
            ("SIGQUIT", libc::SIGQUIT),
            ("SIGPIPE", libc::SIGPIPE),
            ("SIGALRM", libc::SIGALRM),
            ("SIGTERM", libc::SIGTERM),
            ("SIGCHLD", libc::SIGCHLD),
            ("SIGUSR1", libc::SIGUSR1),
            ("SIGUSR2", libc::SIGUSR2),
        ] {
            let mut old: libc::sigaction = std::mem::zeroed();
            if libc::sigaction(sig, std::ptr::null(), &mut old) == 0 {
                v.push((format!("disposition of {name}"), format!("{:x}/{:x}", old.sa_sigaction, old.sa_flags)));
            }
        }
        for (name, res) in [
            ("RLIMIT_NOFILE", libc::RLIMIT_NOFILE),
            ("RLIMIT_STACK", libc::RLIMIT_STACK),
            ("RLIMIT_CORE", libc::RLIMIT_CORE),
            ("RLIMIT_AS", libc::RLIMIT_AS),
            ("RLIMIT_NPROC", libc::RLIMIT_NPROC),
        ] {
            let mut lim: libc::rlimit = std::mem::zeroed();
            if libc::getrlimit(res, &mut lim) == 0 {
                v.push((name.to_string(), format!("{}/{}", lim.rlim_cur, lim.rlim_max)));
            }
        }
        v.push(("nice value".to_string(), libc::getpriority(libc::PRIO_PROCESS, 0).to_string()));
    }
    v
}

/// What a planted file contains: something a reader of that kind of file would act on.
fn planted_content(name: &str) -> &'static str {
    match name.rsplit('.').next().unwrap_or("") {
        "wgsl" => "@fragment\nfn planted_by_the_simulator() -> @location(0) vec4<f32> {\n    return vec4<f32>(1.0);\n}\n",
        "json" => "{\"planted\": true, \"rustfmt\": false, \"derive\": [\"serde\"], \"validate\": false}\n",
        "rs" => "pub const PLANTED_BY_THE_SIMULATOR: u32 = 1;\n",
        _ => "# planted by the simulator\nplanted = true\nrustfmt = false\nvalidate = false\nmax_width = 30\nderive = [\"serde\"]\n",
    }
}

fn count_dir(path: &str) -> i64 {
    std::fs::read_dir(path).map(|d| d.count() as i64).unwrap_or(0)
}

/// Points file descriptor 1 at an anonymous file for the duration of the calls.
struct StdoutCapture {
    saved: i32,
    capture: i32,
}

impl StdoutCapture {
    fn start() -> Option<StdoutCapture> {
        unsafe {
            let _ = std::io::stdout().flush();
            let capture = libc::memfd_create(c"verif-stdout".as_ptr(), 0);
            if capture < 0 {
                return None;
            }
            let saved = libc::dup(1);
            if saved < 0 || libc::dup2(capture, 1) < 0 {
                libc::close(capture);
                return None;
            }
            Some(StdoutCapture { saved, capture })
        }
    }

    fn finish(self) -> Option<String> {
        unsafe {
            let _ = std::io::stdout().flush();
            libc::dup2(self.saved, 1);
            libc::close(self.saved);
            let len = libc::lseek(self.capture, 0, libc::SEEK_END);
            let mut buf = vec![0u8; len.clamp(0, 400) as usize];
            if len > 0 {
                libc::pread(self.capture, buf.as_mut_ptr() as *mut libc::c_void, buf.len(), 0);
            }
            libc::close(self.capture);
            (len > 0).then(|| format!("{len} bytes: {:?}", String::from_utf8_lossy(&buf)))
        }
    }
}

// ---------------------------------------------------------------------------------------------
// Worker process

struct C18Backend {
    sched: Arc<Sched>,
    tid: usize,
    tick_ns: u64,
    failing_spawns: Vec<u64>,
    spawn_error_not_found: bool,
    spawn_count: AtomicU64,
    formatter_fault_in_this_call: std::sync::atomic::AtomicBool,
    fmt: FmtPlan,
    children: Mutex<Vec<Arc<SimChild>>>,
    /// the simulated thread this backend belongs to
    owner: std::thread::ThreadId,
}

impl Backend for C18Backend {
    fn point(&self, site: &'static str) {
        seams::advance_thread_clock(self.tick_ns);
        self.sched.point(self.tid, site);
    }

    fn spawn(&self, spec: &SpawnSpec) -> Option<std::io::Result<Arc<dyn ChildIo>>> {
        // The fault-free, well-behaved formatter of DESIGN §1.4; its seam calls are scheduling points.
        let mut plan = ProcPlan::well_behaved();
        plan.stdin_cap = self.fmt.stdin_cap;
        plan.stdout_cap = self.fmt.stdout_cap;
        plan.chunk = self.fmt.chunk;
        if self.fmt.think_us > 0 {
            plan.script.insert(1, procsim::Op::Delay(self.fmt.think_us));
        }
        let sched = self.sched.clone();
        let tid = self.tid;
        let tick_ns = self.tick_ns;
        let owner = self.owner;
        self.sched.point(self.tid, "seam:spawn");
        let nth = self.spawn_count.fetch_add(1, Ordering::Relaxed) + 1;
        if self.failing_spawns.contains(&nth) {
            self.formatter_fault_in_this_call.store(true, Ordering::Relaxed);
            return Some(Err(std::io::Error::from_raw_os_error(if self.spawn_error_not_found {
                libc::ENOENT
            } else {
                libc::EAGAIN
            })));
        }
        Some(
            procsim::spawn(
                &plan,
                spec,
                Arc::new(String::new()),
                Some(Box::new(move |site| {
                    // A helper thread of the code under test (one that feeds or drains the
                    // formatter) is not a simulated thread: it runs freely, only the thread that
                    // made the call takes scheduling points.
                    if std::thread::current().id() != owner {
                        return;
                    }
                    seams::advance_thread_clock(tick_ns);
                    sched.point(tid, site)
                })),
            )
            .map(|child| {
                self.children.lock().unwrap().push(child.clone());
                child as Arc<dyn ChildIo>
            }),
        )
    }
}

fn list_dir(dir: &std::path::Path) -> Vec<String> {
    let mut v: Vec<String> = std::fs::read_dir(dir)
        .map(|rd| {
            rd.filter_map(|e| e.ok())
                .map(|e| e.file_name().to_string_lossy().into_owned())
                .collect()
        })
        .unwrap_or_default();
    v.sort();
    v
}

fn list_tree(dir: &std::path::Path) -> Vec<String> {
    let mut out = Vec::new();
    let mut stack = vec![dir.to_path_buf()];
    while let Some(d) = stack.pop() {
        if let Ok(rd) = std::fs::read_dir(&d) {
            for e in rd.filter_map(|e| e.ok()) {
                let p = e.path();
                out.push(p.strip_prefix(dir).unwrap_or(&p).to_string_lossy().into_owned());
                if p.is_dir() {
                    stack.push(p);
                }
            }
        }
    }
    out.sort();
    out
}

pub fn proc_main() -> i32 {
    let mut text = String::new();
    if std::io::stdin().read_to_string(&mut text).is_err() {
        return 2;
    }
    let input: WorkerInput = match serde_json::from_str(&text) {
        Ok(i) => i,
        Err(e) => {
            eprintln!("HARNESS-ERROR worker input: {e}");
            return 2;
        }
    };
    let out = run_process(&input);
    let stdout = std::io::stdout();
    let mut lock = stdout.lock();
    let _ = lock.write_all(serde_json::to_string(&out).unwrap().as_bytes());
    let _ = lock.flush();
    0
}

fn run_process(input: &WorkerInput) -> WorkerOutput {
    let p = &input.process;
    if let Some(root) = &input.tmp_dir {
        for path in &p.plant_files {
            if let Some(rest) = path.strip_prefix("$RUN/") {
                let full = std::path::Path::new(root).join(rest);
                if let Some(parent) = full.parent() {
                    let _ = std::fs::create_dir_all(parent);
                }
                let _ = std::fs::write(&full, planted_content(rest));
            }
        }
        for dir in &p.plant_dirs {
            if let Some(rest) = dir.strip_prefix("$RUN/") {
                let full = std::path::Path::new(root).join(rest);
                let _ = std::fs::create_dir_all(&full);
                let mut names: Vec<String> = vec![
                    "common.wgsl".into(),
                    "prelude.wgsl".into(),
                    "config.toml".into(),
                    "0000000000000000.rs".into(),
                ];
                for job in &input.pool {
                    if let Some(include) = &job.include_path {
                        let base = include.rsplit('/').next().unwrap_or(include);
                        let (stem, ext) = base.rsplit_once('.').unwrap_or((base, ""));
                        let mut other_case: String = stem.chars().take(1).flat_map(|c| c.to_uppercase()).collect();
                        other_case.extend(stem.chars().skip(1));
                        names.push(format!("{other_case}.{}", ext.to_uppercase()));
                        names.push(format!("{base}.bak"));
                        names.push(format!("{stem}.override.{ext}"));
                    }
                }
                for name in names {
                    let file = full.join(&name);
                    if !file.exists() {
                        let _ = std::fs::write(&file, planted_content(&name));
                    }
                }
            }
        }
    }
    seams::set_clock(p.clock_skew_s, p.clock_jump_s, p.clock_jump_after);
    seams::set_cpu_count(p.cpus);
    seams::set_process_identity(p.identity);
    let env_before: BTreeMap<String, String> = std::env::vars_os()
        .map(|(k, v)| (k.to_string_lossy().into_owned(), v.to_string_lossy().into_owned()))
        .collect();
    let cwd_before = std::env::current_dir().ok();
    let files_before = cwd_before.as_deref().map(list_dir).unwrap_or_default();
    let tmp_before = input.tmp_dir.as_deref().map(|d| list_tree(std::path::Path::new(d))).unwrap_or_default();
    let hook_ok_before = crate::panic_hook_is_ours();
    let attributes_before = process_attributes();
    let stdout_capture = StdoutCapture::start();
    let fds_before = count_dir("/proc/self/fd");
    let threads_before = count_dir("/proc/self/task");

    let n = p.threads.len();
    let sched = Arc::new(Sched::new(n, &p.sched, input.record_log));
    let sources: Arc<Vec<String>> = Arc::new(input.pool.iter().map(|j| j.shader.source()).collect());
    let pool = Arc::new(input.pool.clone());
    let golden = Arc::new(input.golden.clone());
    let golden_without_formatter = Arc::new(input.golden_without_formatter.clone());
    let results = Arc::new(Mutex::new(Vec::<JobResult>::new()));
    let spawns = Arc::new(AtomicU64::new(0));
    let unreaped = Arc::new(AtomicU64::new(0));
    let helper_threads = Arc::new(AtomicU64::new(0));
    let probes = Arc::new(Mutex::new(Vec::<String>::new()));
    let env_probes = Arc::new(Mutex::new(Vec::<String>::new()));
    let dir_probes = Arc::new(Mutex::new(Vec::<String>::new()));
    let return_all = input.return_all_outcomes;

    let mut handles = Vec::new();
    for (tid, tplan) in p.threads.iter().enumerate() {
        let sched = sched.clone();
        let tplan = tplan.clone();
        let sources = sources.clone();
        let pool = pool.clone();
        let golden = golden.clone();
        let golden_without_formatter = golden_without_formatter.clone();
        let results = results.clone();
        let fmt = p.fmt.clone();
        let tick_ns = p.tick_ns;
        let spawns = spawns.clone();
        let unreaped = unreaped.clone();
        let helper_threads = helper_threads.clone();
        let probes = probes.clone();
        let env_probes = env_probes.clone();
        let dir_probes = dir_probes.clone();
        let mut builder = std::thread::Builder::new().stack_size(if tplan.stack_mib == 0 {
            16 << 20
        } else {
            (tplan.stack_mib as usize) << 20
        });
        if let Some(name) = &tplan.name {
            builder = builder.name(name.clone());
        }
        let handle = builder
            .spawn(move || {
                seams::set_thread_entropy(Some(tplan.entropy));
                {
                    // a sleeping caller is a scheduling point, not a real delay
                    let sched = sched.clone();
                    seams::set_sleep_hook(Some(Box::new(move |_ns| sched.point_no_unwind(tid, "sleep"))));
                }
                {
                    let sched = sched.clone();
                    seams::set_alloc_hook(
                        tplan.alloc_point_every,
                        Some(Box::new(move || sched.point_no_unwind(tid, "alloc"))),
                    );
                }
                let backend = Arc::new(C18Backend {
                    sched: sched.clone(),
                    tid,
                    tick_ns,
                    failing_spawns: tplan.failing_spawns.clone(),
                    spawn_error_not_found: tplan.spawn_error_not_found,
                    spawn_count: AtomicU64::new(0),
                    formatter_fault_in_this_call: std::sync::atomic::AtomicBool::new(false),
                    fmt,
                    children: Mutex::new(Vec::new()),
                    owner: std::thread::current().id(),
                });
                verif_hooks::install(Some(backend.clone() as Arc<dyn Backend>));
                let body = std::panic::catch_unwind(std::panic::AssertUnwindSafe(|| {
                    sched.thread_start(tid);
                    for (qidx, pool_idx) in tplan.jobs.iter().copied().enumerate() {
                        sched.point(tid, "job:start");
                        let job = &pool[pool_idx];
                        backend.formatter_fault_in_this_call.store(false, Ordering::Relaxed);
                        sched.set_in_call(tid, true);
                        seams::set_file_probe_recording(true);
                        seams::set_env_probe_recording(true);
                        seams::set_dir_probe_recording(true);
                        seams::set_alloc_points_active(true);
                        let r = if tplan.while_unwinding.contains(&qidx) {
                            call_while_unwinding(&sources[pool_idx], job)
                        } else {
                            std::panic::catch_unwind(std::panic::AssertUnwindSafe(|| {
                                corpus::run_job(&sources[pool_idx], job.include_path.as_deref(), job.options)
                            }))
                        };
                        seams::set_alloc_points_active(false);
                        let looked_for = seams::take_file_probes();
                        seams::set_file_probe_recording(false);
                        let asked_for = seams::take_env_probes();
                        seams::set_env_probe_recording(false);
                        let listed = seams::take_dir_probes();
                        seams::set_dir_probe_recording(false);
                        if !listed.is_empty() {
                            let mut all = dir_probes.lock().unwrap();
                            for dir in listed {
                                if all.len() < 32 && !all.contains(&dir) {
                                    all.push(dir);
                                }
                            }
                        }
                        if !asked_for.is_empty() {
                            let mut all = env_probes.lock().unwrap();
                            for name in asked_for {
                                if all.len() < 32 && !all.contains(&name) {
                                    all.push(name);
                                }
                            }
                        }
                        if !looked_for.is_empty() {
                            let mut all = probes.lock().unwrap();
                            for path in looked_for {
                                if all.len() < 64 && !all.contains(&path) {
                                    all.push(path);
                                }
                            }
                        }
                        sched.set_in_call(tid, false);
                        let result = match r {
                            // The formatter of this call could not be started: what comes back is
                            // compared with what a pristine process returns in the same situation.
                            Ok(outcome) if backend.formatter_fault_in_this_call.load(Ordering::Relaxed) => {
                                let hash = outcome.hash();
                                let want = golden_without_formatter.get(pool_idx).copied().unwrap_or(0);
                                let matches = want == 0 || want == hash;
                                JobResult {
                                    tid,
                                    qidx,
                                    pool_idx,
                                    hash,
                                    class: "formatter_could_not_be_started".into(),
                                    completed: false,
                                    matches,
                                    outcome: (!matches || return_all).then_some(outcome),
                                }
                            }
                            Ok(outcome) => {
                                let hash = outcome.hash();
                                let want = golden[pool_idx];
                                let matches = want == 0 || want == hash;
                                JobResult {
                                    tid,
                                    qidx,
                                    pool_idx,
                                    hash,
                                    class: outcome.class().to_string(),
                                    completed: true,
                                    matches,
                                    outcome: (!matches || return_all).then_some(outcome),
                                }
                            }
                            Err(payload) => match payload.downcast_ref::<Sentinel>() {
                                // The call deadlocked against its (well-behaved) formatter. Whether
                                // that may happen is C19's business; for C18 it is an outcome like
                                // any other: the same input must give it every time.
                                Some(Sentinel::Hang(what)) => {
                                    let outcome = Outcome::Panic {
                                        message: format!("the call never returns: {what}"),
                                    };
                                    let hash = outcome.hash();
                                    let want = golden[pool_idx];
                                    let matches = want == 0 || want == hash;
                                    JobResult {
                                        tid,
                                        qidx,
                                        pool_idx,
                                        hash,
                                        class: "hang".into(),
                                        completed: true,
                                        matches,
                                        outcome: (!matches || return_all).then_some(outcome),
                                    }
                                }
                                Some(Sentinel::Crash) => JobResult {
                                    tid,
                                    qidx,
                                    pool_idx,
                                    hash: 0,
                                    class: "crashed_by_injection".into(),
                                    completed: false,
                                    matches: true,
                                    outcome: None,
                                },
                                _ => std::panic::resume_unwind(payload),
                            },
                        };
                        results.lock().unwrap().push(result);
                    }
                }));
                verif_hooks::install(None);
                seams::set_sleep_hook(None);
                seams::set_alloc_hook(0, None);
                sched.thread_done(tid);
                helper_threads.fetch_add(seams::threads_created_by_current_thread(), Ordering::Relaxed);
                let children = backend.children.lock().unwrap();
                spawns.fetch_add(children.len() as u64, Ordering::Relaxed);
                for c in children.iter() {
                    let snap = c.snapshot();
                    if !snap.reaped {
                        unreaped.fetch_add(1, Ordering::Relaxed);
                    }
                }
                if let Err(payload) = body {
                    if !matches!(payload.downcast_ref::<Sentinel>(), Some(Sentinel::Abort)) {
                        return Err(corpus::panic_message(&*payload));
                    }
                }
                Ok(())
            })
            .expect("spawn simulated thread");
        handles.push(handle);
    }
    let mut harness_errors = Vec::new();
    for h in handles {
        match h.join() {
            Ok(Ok(())) => {}
            Ok(Err(m)) => harness_errors.push(m),
            Err(_) => harness_errors.push("simulated thread panicked outside the job".into()),
        }
    }

    let report = sched.report();
    let stdout_written = stdout_capture.and_then(|c| c.finish());
    let fds_delta = count_dir("/proc/self/fd") - fds_before;
    // a thread that has just been joined or has just returned may still be listed for a moment
    let mut threads_left_running = 0;
    for _ in 0..20 {
        threads_left_running = (count_dir("/proc/self/task") - threads_before).max(0) as u64;
        if threads_left_running == 0 {
            break;
        }
        let _real = seams::RealClock::new();
        std::thread::sleep(std::time::Duration::from_millis(5));
    }
    let process_attributes_changed: Vec<String> = process_attributes()
        .into_iter()
        .zip(attributes_before)
        .filter(|(after, before)| after != before)
        .map(|(after, before)| format!("{}: {} -> {}", after.0, before.1, after.1))
        .collect();
    let env_after: BTreeMap<String, String> = std::env::vars_os()
        .map(|(k, v)| (k.to_string_lossy().into_owned(), v.to_string_lossy().into_owned()))
        .collect();
    let mut env_changed = Vec::new();
    for (k, v) in &env_after {
        if env_before.get(k) != Some(v) {
            env_changed.push(k.clone());
        }
    }
    for k in env_before.keys() {
        if !env_after.contains_key(k) {
            env_changed.push(k.clone());
        }
    }
    let cwd_after = std::env::current_dir().ok();
    let files_after = cwd_before.as_deref().map(list_dir).unwrap_or_default();
    let new_files: Vec<String> = files_after
        .iter()
        .filter(|f| !files_before.contains(f))
        .cloned()
        .collect();
    let tmp_after = input.tmp_dir.as_deref().map(|d| list_tree(std::path::Path::new(d))).unwrap_or_default();
    let new_files_in_tmp: Vec<String> = tmp_after
        .iter()
        .filter(|f| !tmp_before.contains(f))
        .cloned()
        .collect();
    let panic_hook_replaced = hook_ok_before && !crate::panic_hook_is_ours();
    let mut results = results.lock().unwrap().clone();
    results.sort_by_key(|r| (r.tid, r.qidx));
    let mut hasher = Hasher(report.log_hash);
    for r in &results {
        hasher.u64(r.tid as u64);
        hasher.u64(r.qidx as u64);
        hasher.u64(r.hash);
        hasher.str(&r.class);
    }
    let probed_missing: Vec<String> = {
        let root = input.tmp_dir.clone().unwrap_or_default();
        let all = probes.lock().unwrap();
        all.iter()
            .map(|p| match p.strip_prefix(&root) {
                Some(rest) if !root.is_empty() => format!("$RUN{rest}"),
                _ => p.clone(),
            })
            .collect()
    };
    let probed_env: Vec<String> = {
        let all = env_probes.lock().unwrap();
        all.clone()
    };
    let probed_dirs: Vec<String> = {
        let root = input.tmp_dir.clone().unwrap_or_default();
        let all = dir_probes.lock().unwrap();
        all.iter()
            .map(|p| match p.strip_prefix(&root) {
                Some(rest) if !root.is_empty() => format!("$RUN{rest}"),
                _ => p.clone(),
            })
            .collect()
    };
    let abort = if !harness_errors.is_empty() {
        Some(format!("harness: {}", harness_errors.join("; ")))
    } else {
        report.abort.map(|s| s.to_string())
    };
    WorkerOutput {
        results,
        log_hash: hasher.0,
        steps: report.steps,
        switches: report.switches,
        switches_inside_call: report.switches_inside_call,
        crashes_fired: report.crashes_fired,
        stall_handoffs: report.stall_handoffs,
        abort,
        env_changed,
        cwd_changed: cwd_before != cwd_after,
        new_files,
        new_files_in_tmp,
        panic_hook_replaced,
        entropy_requests: seams::ENTROPY_REQUESTS_SIM.load(Ordering::Relaxed),
        realtime_reads: seams::REALTIME_READS.load(Ordering::Relaxed),
        formatter_spawns: spawns.load(Ordering::Relaxed),
        unreaped_children: unreaped.load(Ordering::Relaxed),
        helper_threads: helper_threads.load(Ordering::Relaxed),
        alloc_points: seams::ALLOC_POINTS.load(Ordering::Relaxed),
        virtual_sleeps: seams::VIRTUAL_SLEEPS.load(Ordering::Relaxed),
        stdout_written,
        process_attributes_changed,
        fds_delta,
        threads_left_running,
        probed_missing,
        probed_env,
        probed_dirs,
        log: report.log,
    }
}

// ---------------------------------------------------------------------------------------------
// Driver side: scratch directories, spawning worker processes

struct Scratch {
    root: PathBuf,
}

impl Scratch {
    fn new() -> Result<Scratch, String> {
        let root = std::env::temp_dir().join(format!("wgsl-sim-c18-{}", std::process::id()));
        let _ = std::fs::remove_dir_all(&root);
        std::fs::create_dir_all(root.join("bin")).map_err(|e| format!("scratch: {e}"))?;
        // A lying `rustfmt` first on some PATHs: only reachable by code that bypasses the seam.
        let fake = root.join("bin/rustfmt");
        std::fs::write(&fake, "#!/bin/sh\ncat >/dev/null\necho '// formatted by the decoy'\n")
            .map_err(|e| e.to_string())?;
        #[cfg(unix)]
        {
            use std::os::unix::fs::PermissionsExt;
            let _ = std::fs::set_permissions(&fake, std::fs::Permissions::from_mode(0o755));
        }
        Ok(Scratch { root })
    }

    /// A private world for one run (or one pristine process): every directory the environment
    /// of its processes can point to. Whatever appears in it during the calls was left behind by
    /// them.
    fn sandbox(&self) -> Result<Sandbox, String> {
        static COUNTER: AtomicU64 = AtomicU64::new(0);
        let root = self
            .root
            .join(format!("run-{}", COUNTER.fetch_add(1, Ordering::Relaxed)));
        for d in [
            "tmp",
            "home",
            "out",
            "manifest",
            "cwd-empty",
            "cwd-decoy",
            "cwd-deep/a/b/c/d",
            "cwd-listing/src",
            "cwd-listing/shaders",
            "cwd-listing/.wgsl_to_wgpu",
            "cwd-listing/include",
        ] {
            std::fs::create_dir_all(root.join(d)).map_err(|e| format!("sandbox: {e}"))?;
        }
        std::fs::write(
            root.join("cwd-decoy/rustfmt.toml"),
            "max_width = 30\nhard_tabs = true\nnewline_style = \"Windows\"\n",
        )
        .map_err(|e| e.to_string())?;
        std::fs::write(root.join("cwd-decoy/.rustfmt.toml"), "max_width = 30\n").map_err(|e| e.to_string())?;
        std::fs::write(
            root.join("cwd-decoy/shader.wgsl"),
            "this is not the shader you are looking for",
        )
        .map_err(|e| e.to_string())?;
        // A directory for code that LISTS directories: near misses of the include path (other
        // case, other extension), conventional neighbours, an include directory, a cache directory.
        for (name, content) in [
            ("cwd-listing/Shader.WGSL", "this is not the shader you are looking for either"),
            ("cwd-listing/shader.wgsl.bak", "@fragment fn stale() {}"),
            ("cwd-listing/shader.override.wgsl", "@fragment fn overridden() {}"),
            ("cwd-listing/src/SHADER.wgsl", "@fragment fn wrong_case() {}"),
            ("cwd-listing/shaders/common.wgsl", "const FROM_THE_INCLUDE_DIRECTORY: u32 = 1u;"),
            ("cwd-listing/include/prelude.wgsl", "const FROM_THE_PRELUDE: u32 = 2u;"),
            ("cwd-listing/.wgsl_to_wgpu/0000000000000000.rs", "pub const FROM_A_CACHE_ENTRY: u32 = 3;"),
            ("cwd-listing/Cargo.toml", "[package]\nname = \"decoy\"\nversion = \"9.9.9\"\n"),
        ] {
            std::fs::write(root.join(name), content).map_err(|e| e.to_string())?;
        }
        Ok(Sandbox { root })
    }

    fn expand(&self, sandbox: &Sandbox, value: &str) -> String {
        value
            .replace("$SCRATCH", &self.root.to_string_lossy())
            .replace("$RUN", &sandbox.root.to_string_lossy())
    }
}

struct Sandbox {
    root: PathBuf,
}

impl Sandbox {
    fn cwd(&self, kind: u8) -> PathBuf {
        match kind {
            0 => self.root.join("cwd-empty"),
            1 => self.root.join("cwd-decoy"),
            2 => PathBuf::from("/"),
            4 => self.root.join("cwd-listing"),
            _ => self.root.join("cwd-deep/a/b/c/d"),
        }
    }
}

impl Drop for Sandbox {
    fn drop(&mut self) {
        let _ = std::fs::remove_dir_all(&self.root);
    }
}

impl Drop for Scratch {
    fn drop(&mut self) {
        let _ = std::fs::remove_dir_all(&self.root);
    }
}

pub fn canonical_env() -> Vec<(String, String)> {
    vec![
        ("PATH".into(), "/usr/local/bin:/usr/bin:/bin".into()),
        ("HOME".into(), "/nonexistent".into()),
        ("LANG".into(), "C".into()),
    ]
}

fn spawn_worker(scratch: &Scratch, sandbox: &Sandbox, input: &WorkerInput) -> Result<WorkerOutput, String> {
    let exe = std::env::current_exe().map_err(|e| e.to_string())?;
    // How a process is started (program name, path of the executable, arguments) is part of its
    // environment too.
    let mut cmd = match input.process.argv_kind {
        1 => {
            let dir = sandbox.root.join("bin");
            let link = dir.join("build-script-build");
            let linked = std::fs::create_dir_all(&dir).is_ok()
                && (link.exists() || std::fs::hard_link(&exe, &link).is_ok());
            let mut cmd = std::process::Command::new(if linked { link } else { exe });
            cmd.arg("c18-proc").arg("--release").arg("target/debug/build/decoy-0123456789abcdef/out");
            cmd
        }
        2 => {
            use std::os::unix::process::CommandExt;
            let mut cmd = std::process::Command::new(exe);
            cmd.arg0(format!("/nonexistent/{}/build_script_build-fedcba9876543210", "deep/".repeat(40)));
            cmd.arg("c18-proc");
            cmd
        }
        _ => {
            let mut cmd = std::process::Command::new(exe);
            cmd.arg("c18-proc");
            cmd
        }
    };
    cmd.env_clear()
        .current_dir(sandbox.cwd(input.process.cwd_kind))
        .stdin(std::process::Stdio::piped())
        .stdout(std::process::Stdio::piped())
        .stderr(std::process::Stdio::piped());
    cmd.env("TMPDIR", sandbox.root.join("tmp"));
    cmd.env("XDG_CACHE_HOME", sandbox.root.join("home/.cache"));
    for (k, v) in &input.process.env {
        if k == "TMPDIR" {
            continue;
        }
        cmd.env(k, scratch.expand(sandbox, v));
    }
    // the worker must find the repository's shader files whatever its environment is
    cmd.env("VERIF_REPO", corpus::repo_root());
    let mut child = cmd.spawn().map_err(|e| format!("spawn worker: {e}"))?;
    let text = serde_json::to_string(input).map_err(|e| e.to_string())?;
    {
        let mut stdin = child.stdin.take().unwrap();
        stdin.write_all(text.as_bytes()).map_err(|e| format!("worker stdin: {e}"))?;
    }
    let out = child.wait_with_output().map_err(|e| format!("worker wait: {e}"))?;
    if !out.status.success() {
        return Err(format!(
            "worker exited with {:?}: {}",
            out.status,
            String::from_utf8_lossy(&out.stderr).chars().take(400).collect::<String>()
        ));
    }
    serde_json::from_slice(&out.stdout).map_err(|e| format!("worker output: {e}"))
}

fn pristine_process(job_count: usize) -> ProcessPlan {
    ProcessPlan {
        env: canonical_env(),
        cwd_kind: 0,
        clock_skew_s: 0,
        clock_jump_s: 0,
        clock_jump_after: u64::MAX,
        cpus: 0,
        tick_ns: 0,
        threads: vec![ThreadPlan {
            alloc_point_every: 0,
            failing_spawns: vec![],
            spawn_error_not_found: false,
            name: None,
            stack_mib: 0,
            entropy: 0,
            jobs: (0..job_count).collect(),
            while_unwinding: vec![],
        }],
        sched: SchedPlan {
            seed: 0,
            policy: Policy::Random { preempt_permille: 0 },
            crash_points: vec![],
            step_cap: 10_000_000,
        },
        fmt: FmtPlan {
            stdin_cap: 65536,
            stdout_cap: 65536,
            chunk: 4096,
            think_us: 0,
        },
        plant_files: vec![],
        plant_dirs: vec![],
        argv_kind: 0,
        identity: 0,
    }
}

type Golden = Mutex<HashMap<Job, Outcome>>;

/// Golden table entry: the job alone, first, in a pristine process.
fn golden_for(scratch: &Scratch, golden: &Golden, job: &Job) -> Result<Outcome, String> {
    golden_entry(scratch, golden, job, false)
}

/// The same for a call whose formatter cannot be started (a second table under a marked key).
fn golden_without_formatter_for(scratch: &Scratch, golden: &Golden, job: &Job) -> Result<Outcome, String> {
    golden_entry(scratch, golden, job, true)
}

fn golden_entry(scratch: &Scratch, golden: &Golden, job: &Job, formatter_unavailable: bool) -> Result<Outcome, String> {
    let key = if formatter_unavailable {
        Job {
            include_path: Some(format!("\u{1}formatter unavailable\u{1}{}", job.include_path.as_deref().unwrap_or("\u{2}"))),
            ..job.clone()
        }
    } else {
        job.clone()
    };
    if let Some(o) = golden.lock().unwrap().get(&key) {
        return Ok(o.clone());
    }
    // a pristine process starts in a fresh sandbox of its own
    let sandbox = scratch.sandbox()?;
    let mut process = pristine_process(1);
    if formatter_unavailable {
        process.threads[0].failing_spawns = vec![1];
    }
    let input = WorkerInput {
        pool: vec![job.clone()],
        golden: vec![0],
        process,
        record_log: false,
        return_all_outcomes: true,
        tmp_dir: Some(sandbox.root.to_string_lossy().into_owned()),
        golden_without_formatter: vec![0],
    };
    let out = spawn_worker(scratch, &sandbox, &input)?;
    let outcome = out
        .results
        .first()
        .and_then(|r| r.outcome.clone())
        .ok_or_else(|| format!("pristine process returned nothing for {} ({:?})", job.describe(), out.abort))?;
    golden.lock().unwrap().insert(key, outcome.clone());
    Ok(outcome)
}

// ---------------------------------------------------------------------------------------------
// Plan generation

/// A fixed, small option menu keeps the golden table reusable across runs.
fn option_menu() -> Vec<Opts> {
    let mut v = Vec::new();
    let mut rng = Rng::new(0x0917_1077);
    v.push(Opts::plain());
    for i in 0..23 {
        let mut o = Opts::random(&mut rng);
        o.rustfmt = i % 3 == 0;
        v.push(o);
    }
    // the validator with fewer capabilities: the same shader is accepted by one call and
    // rejected by the next
    for i in 0..6 {
        let mut o = Opts::random(&mut rng);
        o.validate = true;
        o.caps = 1 + (i % 2) as u8;
        o.rustfmt = i == 0;
        v.push(o);
    }
    v
}

const ENV_MENU: &[(&str, &[&str])] = &[
    ("RUST_BACKTRACE", &["1", "full", "0"]),
    ("RUST_LOG", &["trace", "naga=debug"]),
    ("CARGO_MANIFEST_DIR", &["$RUN/manifest", "/nonexistent/project"]),
    ("OUT_DIR", &["$RUN/out", "/nonexistent/out"]),
    ("HOME", &["$RUN/home", "$RUN/cwd-decoy"]),
    ("LANG", &["de_DE.UTF-8", "tr_TR.UTF-8"]),
    ("LC_ALL", &["tr_TR.UTF-8", "C"]),
    ("TZ", &["Pacific/Kiritimati", "America/St_Johns"]),
    ("SOURCE_DATE_EPOCH", &["0", "1700000000"]),
    ("NO_COLOR", &["1"]),
    ("TERM", &["dumb", "xterm-256color"]),
    ("PATH", &["$SCRATCH/bin:/usr/bin:/bin", "", "/nonexistent"]),
    ("RUSTFMT", &["$SCRATCH/bin/rustfmt"]),
    ("CARGO_PKG_NAME", &["decoy_pkg"]),
    ("USER", &["someone_else"]),
];

pub fn gen_plan(rng: &mut Rng) -> RunPlan {
    let menu = option_menu();
    // 5 % of the runs are a stress run (see below); 3 % are a long history: one process, one or
    // two threads, a hundred or more calls each over two or three dozen different inputs - what
    // depends on how many calls or how many different inputs a process has seen (periodic
    // maintenance, a counter that wraps, a bounded cache that evicts) does not show in the first
    // handful.
    let stress = rng.chance(50) || std::env::var_os("VERIF_C18_STRESS_ONLY").is_some();
    let long = !stress && (rng.chance(30) || std::env::var_os("VERIF_C18_LONG_ONLY").is_some());
    let pool_size = if long { rng.usize(18, 48) } else { rng.usize(2, 8) };
    let mut pool: Vec<Job> = Vec::new();
    while pool.len() < pool_size {
        let shader = match rng.below(23) {
            22 => {
                // the same shader validated with all and with few capabilities, side by side
                let shader = if rng.bool() {
                    ShaderRef::Repo { path: "example/src/shader.wgsl".to_string() }
                } else {
                    ShaderRef::Gen { seed: rng.below(48), scale: rng.range(1, 3) as u32 }
                };
                let base = *rng.pick(&menu);
                pool.push(Job {
                    shader: shader.clone(),
                    include_path: None,
                    options: Opts { validate: true, caps: 0, ..base },
                });
                pool.push(Job {
                    shader,
                    include_path: None,
                    options: Opts { validate: true, caps: 1 + rng.below(2) as u8, ..base },
                });
                continue;
            }
            20..=21 => {
                // a litter of siblings: same declarations, names and sizes, different leaf types
                let seed = rng.below(40);
                let options = *rng.pick(&menu);
                let first = rng.below(3) as u32;
                for k in 0..rng.usize(1, 3) as u32 {
                    pool.push(Job {
                        shader: ShaderRef::Sibling {
                            seed,
                            variant: if k == 0 { first } else if rng.chance(500) { (first + k) % 3 } else { rng.range(3, 40) as u32 },
                        },
                        include_path: None,
                        // mostly the same options, so that only the leaf types differ
                        options: if rng.chance(700) { options } else { *rng.pick(&menu) },
                    });
                }
                ShaderRef::Sibling { seed, variant: (first + 1) % 3 }
            }
            0..=8 => ShaderRef::Repo {
                path: rng.pick(corpus::REPO_SHADERS).to_string(),
            },
            9..=14 => ShaderRef::Gen {
                seed: rng.below(48),
                // mostly small; now and then a module with a hundred types and dozens of bindings
                scale: if rng.chance(150) {
                    rng.range(6, 12) as u32
                } else {
                    rng.range(1, 3) as u32
                },
            },
            15..=17 => ShaderRef::Deep {
                shape: rng.below(3) as u8,
                depth: rng.range(30, 47) as u32,
                variant: rng.below(6) as u32,
            },
            _ => ShaderRef::Bad {
                which: rng.below(corpus::BAD_SHADERS) as u32,
            },
        };
        let include_path = if rng.chance(300) {
            Some("shader.wgsl".to_string())
        } else {
            None
        };
        pool.push(Job {
            shader,
            include_path,
            options: *rng.pick(&menu),
        });
    }
    // A stress run: one process, twelve free-running threads, each calling its
    // own twin of one small shader forty times. Twins cost exactly the same, so the threads stay in
    // lockstep and reach every point of the library at the same instant again and again -
    // uncontrolled and not replayable (see Policy::Free), but the only way to reach races whose
    // window is a couple of machine instructions.
    if stress {
        let seed = rng.below(48);
        let options = *rng.pick(&menu[..8]);
        pool = (0..12)
            .map(|variant| Job {
                shader: ShaderRef::Twin { seed, variant },
                include_path: None,
                options: Opts {
                    rustfmt: false,
                    ..options
                },
            })
            .collect();
    }
    if long {
        for job in pool.iter_mut() {
            if let ShaderRef::Gen { scale, .. } = &mut job.shader {
                *scale = (*scale).min(3);
            }
        }
    }
    let n_proc = if stress || long {
        1
    } else {
        match rng.below(10) {
            0..=5 => 1,
            6..=8 => 2,
            _ => 3,
        }
    };
    let mut processes = Vec::new();
    for _ in 0..n_proc {
        let n_threads = if stress {
            12
        } else if long {
            rng.usize(1, 2)
        } else {
            rng.usize(1, 6)
        };
        // scheduling points at heap allocations: off, sparse, dense (per process)
        let alloc_every = *rng.pick(&[0u64, 0, 0, 997, 211, 37]);
        let threads: Vec<ThreadPlan> = (0..n_threads)
            .map(|_| ThreadPlan {
                alloc_point_every: alloc_every,
                failing_spawns: if rng.chance(120) {
                    vec![rng.range(1, 3)]
                } else {
                    vec![]
                },
                while_unwinding: vec![],
                spawn_error_not_found: rng.chance(400),
                name: if rng.chance(400) {
                    Some(rng.pick(&["main", "build-script-build", "worker-7", "tokio-runtime-worker", "rayon-3", "名前"]).to_string())
                } else {
                    None
                },
                stack_mib: *rng.pick(&[0u32, 0, 0, 12, 64]),
                entropy: rng.next_u64() | 1,
                jobs: Vec::new(),
            })
            .collect();
        let mut threads = threads;
        for (t, thread) in threads.iter_mut().enumerate() {
            thread.jobs = if stress {
                vec![t % pool.len(); 40]
            } else if long {
                (0..rng.usize(70, 280)).map(|_| rng.usize(0, pool.len() - 1)).collect()
            } else {
                (0..rng.usize(1, 6)).map(|_| rng.usize(0, pool.len() - 1)).collect()
            };
        }
        if !stress {
            for thread in threads.iter_mut() {
                for q in 0..thread.jobs.len() {
                    if rng.chance(40) {
                        thread.while_unwinding.push(q);
                    }
                }
            }
        }
        let total_jobs: usize = threads.iter().map(|t| t.jobs.len()).sum();
        let est_steps = (total_jobs as u64) * 120;
        let policy = match if stress { 8 } else { rng.below(9) } {
            8 => Policy::Free,
            0 => Policy::Random { preempt_permille: 0 },
            1 => Policy::Random { preempt_permille: 20 },
            2 => Policy::Random { preempt_permille: 100 },
            3 => Policy::Random { preempt_permille: 300 },
            4 => Policy::Random { preempt_permille: 1000 },
            d => Policy::Pct {
                change_points: (0..(d - 4)).map(|_| rng.range(1, est_steps.max(2))).collect(),
            },
        };
        let mut crash_points = Vec::new();
        if rng.chance(300) {
            for _ in 0..rng.usize(1, 2) {
                crash_points.push((rng.usize(0, n_threads - 1), rng.range(1, 250)));
            }
        }
        let mut env = canonical_env();
        if rng.chance(800) {
            for (k, values) in ENV_MENU {
                if rng.chance(350) {
                    let v = rng.pick(values).to_string();
                    env.retain(|(name, _)| name != k);
                    env.push((k.to_string(), v));
                }
            }
            if rng.chance(200) {
                env.push(("JUNK".into(), "x".repeat(rng.usize(1000, 60000))));
            }
        }
        let year = 365 * 24 * 3600i64;
        processes.push(ProcessPlan {
            env,
            cwd_kind: rng.below(5) as u8,
            clock_skew_s: if rng.chance(600) {
                (rng.below(60) as i64 - 45) * year
            } else {
                0
            },
            clock_jump_s: if rng.chance(300) {
                (rng.below(20) as i64 - 10) * year
            } else {
                0
            },
            clock_jump_after: rng.range(0, 5),
            cpus: *rng.pick(&[0usize, 0, 1, 1, 2, 4]),
            tick_ns: *rng.pick(&[0u64, 0, 0, 100_000, 20_000_000, 300_000_000]),
            threads,
            sched: SchedPlan {
                seed: rng.next_u64(),
                policy,
                crash_points,
                step_cap: 2_000_000,
            },
            fmt: FmtPlan {
                stdin_cap: *rng.pick(&[64usize, 4096, 65536, 1 << 20]),
                stdout_cap: *rng.pick(&[64usize, 4096, 65536, 1 << 20]),
                chunk: *rng.pick(&[64usize, 512, 4096, 65536]),
                think_us: *rng.pick(&[0u64, 0, 0, 1_000, 5_000_000]),
            },
            plant_files: vec![],
            plant_dirs: vec![],
            argv_kind: *rng.pick(&[0u8, 0, 1, 2]),
            identity: if rng.chance(600) { rng.next_u64() | 1 } else { 0 },
        });
    }
    RunPlan { pool, processes }
}

pub fn plan_for_run(seed: u64, index: u64) -> RunPlan {
    let mut rng = Rng::new(rng::mix(seed, &[rng::label("C18"), index]));
    gen_plan(&mut rng)
}

// ---------------------------------------------------------------------------------------------
// Executing a run and judging it

#[derive(Debug, Clone, Serialize, Deserialize)]
pub struct Divergence {
    pub class: String,
    pub process: usize,
    pub detail: String,
    pub job: Option<Job>,
    pub expected: Option<Outcome>,
    pub actual: Option<Outcome>,
}

#[derive(Debug, Clone, Default)]
pub struct RunStats {
    pub processes: u64,
    pub threads: u64,
    pub calls: u64,
    pub steps: u64,
    pub switches: u64,
    pub switches_inside_call: u64,
    pub crashes_fired: u64,
    pub stall_handoffs: u64,
    pub formatter_spawn_faults: u64,
    pub entropy_requests: u64,
    pub realtime_reads: u64,
    pub formatter_spawns: u64,
    pub unreaped_children: u64,
    /// threads created by the code under test inside its calls (helper threads of a change);
    /// they are not under the scheduler's control
    pub helper_threads: u64,
    pub processes_with_more_open_fds_after_the_calls: u64,
    pub processes_with_threads_left_running: u64,
    pub file_probes_recorded: u64,
    pub env_probes_recorded: u64,
    pub dir_probes_recorded: u64,
    pub plans_rerun_with_planted_files: u64,
    pub alloc_points: u64,
    pub virtual_sleeps: u64,
    pub same_job_on_two_threads: u64,
    pub same_job_twice_on_one_thread: u64,
    pub same_job_in_two_processes: u64,
    pub err_outcomes: u64,
    pub panic_outcomes: u64,
    pub ok_outcomes: u64,
    pub env_perturbed: u64,
    pub clock_skewed: u64,
    pub calls_after_a_crash: u64,
}

pub struct RunResult {
    pub divergences: Vec<Divergence>,
    pub log_hash: u64,
    pub stats: RunStats,
    pub logs: Vec<Vec<String>>,
    /// per process: paths the calls looked for and did not find
    pub probed: Vec<Vec<String>>,
    /// per process: environment variables the calls asked for and that were not set
    pub probed_env: Vec<Vec<String>>,
    /// per process: directories the calls listed
    pub probed_dirs: Vec<Vec<String>>,
}

fn first_difference(a: &str, b: &str) -> String {
    let pos = a
        .bytes()
        .zip(b.bytes())
        .position(|(x, y)| x != y)
        .unwrap_or(a.len().min(b.len()));
    let ctx = |s: &str| -> String {
        let start = pos.saturating_sub(30);
        let mut st = start;
        while !s.is_char_boundary(st) {
            st -= 1;
        }
        s[st..].chars().take(80).collect()
    };
    format!("first difference at byte {pos}: expected ..{:?}.. got ..{:?}..", ctx(a), ctx(b))
}

fn execute(scratch: &Scratch, golden: &Golden, plan: &RunPlan, record: bool) -> Result<RunResult, String> {
    let mut expected = Vec::new();
    for job in &plan.pool {
        expected.push(golden_for(scratch, golden, job)?);
    }
    let hashes: Vec<u64> = expected.iter().map(|o| o.hash()).collect();
    // second table, only where it is needed: jobs that ask for the formatter, in plans in which
    // some formatter cannot be started
    let some_formatter_fails = plan.processes.iter().any(|p| p.threads.iter().any(|t| !t.failing_spawns.is_empty()));
    let mut expected_without_formatter: Vec<Option<Outcome>> = Vec::new();
    for job in &plan.pool {
        expected_without_formatter.push(if some_formatter_fails && job.options.rustfmt {
            Some(golden_without_formatter_for(scratch, golden, job)?)
        } else {
            None
        });
    }
    let hashes_without_formatter: Vec<u64> = expected_without_formatter
        .iter()
        .map(|o| o.as_ref().map(|o| o.hash()).unwrap_or(0))
        .collect();
    let mut divergences = Vec::new();
    let mut stats = RunStats::default();
    let mut hasher = Hasher::default();
    let mut logs = Vec::new();
    let mut jobs_seen_in_processes: Vec<HashSet<usize>> = Vec::new();
    let mut probed = Vec::new();
    let mut probed_env = Vec::new();
    let mut probed_dirs = Vec::new();
    // One sandbox per run, shared by the run's processes (what one leaves behind, the next finds).
    let sandbox = scratch.sandbox()?;
    // Simulated processes run one after the other: the only state they can share is the file
    // system, and leftovers of an earlier process are part of the later one's history.
    for (pi, process) in plan.processes.iter().enumerate() {
        let input = WorkerInput {
            pool: plan.pool.clone(),
            golden: hashes.clone(),
            process: process.clone(),
            record_log: record,
            return_all_outcomes: false,
            tmp_dir: Some(sandbox.root.to_string_lossy().into_owned()),
            golden_without_formatter: hashes_without_formatter.clone(),
        };
        let out = spawn_worker(scratch, &sandbox, &input)?;
        if let Some(abort) = &out.abort {
            return Err(format!("process {pi}: {abort}"));
        }
        hasher.u64(out.log_hash);
        stats.file_probes_recorded += out.probed_missing.len() as u64;
        probed.push(out.probed_missing.clone());
        stats.env_probes_recorded += out.probed_env.len() as u64;
        probed_env.push(out.probed_env.clone());
        stats.dir_probes_recorded += out.probed_dirs.len() as u64;
        probed_dirs.push(out.probed_dirs.clone());
        stats.processes += 1;
        stats.threads += process.threads.len() as u64;
        stats.steps += out.steps;
        stats.switches += out.switches;
        stats.switches_inside_call += out.switches_inside_call;
        stats.crashes_fired += out.crashes_fired;
        stats.stall_handoffs += out.stall_handoffs;
        stats.entropy_requests += out.entropy_requests;
        stats.realtime_reads += out.realtime_reads;
        stats.formatter_spawns += out.formatter_spawns;
        stats.unreaped_children += out.unreaped_children;
        stats.helper_threads += out.helper_threads;
        stats.processes_with_more_open_fds_after_the_calls += (out.fds_delta > 0) as u64;
        stats.processes_with_threads_left_running += (out.threads_left_running > 0) as u64;
        stats.alloc_points += out.alloc_points;
        stats.virtual_sleeps += out.virtual_sleeps;
        if process.env.len() != canonical_env().len() || process.env != canonical_env() {
            stats.env_perturbed += 1;
        }
        if process.clock_skew_s != 0 || process.clock_jump_s != 0 {
            stats.clock_skewed += 1;
        }
        let mut per_thread: HashMap<usize, Vec<usize>> = HashMap::new();
        let mut seen = HashSet::new();
        let mut crashed = false;
        for r in &out.results {
            stats.calls += 1;
            if !r.completed {
                crashed = true;
                if r.class == "formatter_could_not_be_started" {
                    stats.formatter_spawn_faults += 1;
                    if !r.matches {
                        let exp = expected_without_formatter[r.pool_idx].clone();
                        let detail = match (exp.as_ref(), r.outcome.as_ref()) {
                            (Some(Outcome::Ok { text: a }), Some(Outcome::Ok { text: b })) => first_difference(a, b),
                            (e, a) => format!("expected {} got {}", e.map(|e| e.brief()).unwrap_or_default(), a.map(|a| a.brief()).unwrap_or_default()),
                        };
                        divergences.push(Divergence {
                            class: "diverged:formatter_unavailable".into(),
                            process: pi,
                            detail: format!(
                                "thread {} job #{}: a call whose formatter could not be started returned something else than the same call in a pristine process whose formatter could not be started: {detail}",
                                r.tid, r.qidx
                            ),
                            job: Some(plan.pool[r.pool_idx].clone()),
                            expected: exp,
                            actual: r.outcome.clone(),
                        });
                    }
                }
                continue;
            }
            if crashed {
                stats.calls_after_a_crash += 1;
            }
            match r.class.as_str() {
                "ok" => stats.ok_outcomes += 1,
                "err" => stats.err_outcomes += 1,
                _ => stats.panic_outcomes += 1,
            }
            per_thread.entry(r.tid).or_default().push(r.pool_idx);
            seen.insert(r.pool_idx);
            if !r.matches {
                let exp = &expected[r.pool_idx];
                let detail = match (exp, r.outcome.as_ref()) {
                    (Outcome::Ok { text: a }, Some(Outcome::Ok { text: b })) => first_difference(a, b),
                    (e, Some(a)) => format!("expected {} got {}", e.brief(), a.brief()),
                    (e, None) => format!("expected {} got hash {:016x}", e.brief(), r.hash),
                };
                divergences.push(Divergence {
                    class: format!(
                        "diverged:{}->{}",
                        exp.class(),
                        r.outcome.as_ref().map(|o| o.class()).unwrap_or("?")
                    ),
                    process: pi,
                    detail: format!("thread {} job #{}: {detail}", r.tid, r.qidx),
                    job: Some(plan.pool[r.pool_idx].clone()),
                    expected: Some(exp.clone()),
                    actual: r.outcome.clone(),
                });
            }
        }
        for (_, jobs) in &per_thread {
            let distinct: HashSet<_> = jobs.iter().collect();
            if distinct.len() < jobs.len() {
                stats.same_job_twice_on_one_thread += 1;
            }
        }
        let mut count: HashMap<usize, usize> = HashMap::new();
        for (_, jobs) in &per_thread {
            for j in jobs.iter().collect::<HashSet<_>>() {
                *count.entry(*j).or_default() += 1;
            }
        }
        if count.values().any(|c| *c > 1) {
            stats.same_job_on_two_threads += 1;
        }
        if jobs_seen_in_processes.iter().any(|s| s.intersection(&seen).next().is_some()) {
            stats.same_job_in_two_processes += 1;
        }
        jobs_seen_in_processes.push(seen);
        if !out.env_changed.is_empty() {
            divergences.push(Divergence {
                class: "state_modified:environment".into(),
                process: pi,
                detail: format!("environment variables changed by the calls: {:?}", out.env_changed),
                job: None,
                expected: None,
                actual: None,
            });
        }
        if out.cwd_changed {
            divergences.push(Divergence {
                class: "state_modified:cwd".into(),
                process: pi,
                detail: "working directory changed by the calls".into(),
                job: None,
                expected: None,
                actual: None,
            });
        }
        if !out.new_files_in_tmp.is_empty() {
            divergences.push(Divergence {
                class: if out.new_files_in_tmp.iter().all(|f| f.starts_with("tmp/")) {
                    "state_modified:files_in_temp_dir".into()
                } else {
                    "state_modified:files_left_behind".into()
                },
                process: pi,
                detail: format!("files left behind (temp dir, home, OUT_DIR, manifest dir, working directories of the run): {:?}", out.new_files_in_tmp.iter().take(6).collect::<Vec<_>>()),
                job: None,
                expected: None,
                actual: None,
            });
        }
        if let Some(written) = &out.stdout_written {
            divergences.push(Divergence {
                class: "state_modified:stdout_written".into(),
                process: pi,
                detail: format!("the calls wrote to standard output (in a build script that is cargo's instruction channel): {written}"),
                job: None,
                expected: None,
                actual: None,
            });
        }
        if !out.process_attributes_changed.is_empty() {
            divergences.push(Divergence {
                class: "state_modified:process_attributes".into(),
                process: pi,
                detail: format!("process attributes changed by the calls: {:?}", out.process_attributes_changed),
                job: None,
                expected: None,
                actual: None,
            });
        }
        if out.panic_hook_replaced {
            divergences.push(Divergence {
                class: "state_modified:panic_hook".into(),
                process: pi,
                detail: "after all calls returned, a panic no longer reaches the panic hook that was installed before the calls".into(),
                job: None,
                expected: None,
                actual: None,
            });
        }
        if !out.new_files.is_empty() {
            divergences.push(Divergence {
                class: "state_modified:files_in_cwd".into(),
                process: pi,
                detail: format!("files created in the working directory: {:?}", out.new_files),
                job: None,
                expected: None,
                actual: None,
            });
        }
        logs.push(out.log);
    }
    Ok(RunResult {
        divergences,
        log_hash: hasher.0,
        stats,
        logs,
        probed,
        probed_env,
        probed_dirs,
    })
}

// ---------------------------------------------------------------------------------------------
// Minimisation

fn still_fails(scratch: &Scratch, golden: &Golden, plan: &RunPlan, class: &str) -> bool {
    // A divergence may depend on uncontrolled sources; give it two chances.
    for _ in 0..2 {
        if let Ok(r) = execute(scratch, golden, plan, false) {
            if r.divergences.iter().any(|d| d.class == class) {
                return true;
            }
        }
    }
    false
}

fn compact_pool(plan: &mut RunPlan) {
    let mut used: Vec<usize> = plan
        .processes
        .iter()
        .flat_map(|p| p.threads.iter().flat_map(|t| t.jobs.iter().copied()))
        .collect();
    used.sort();
    used.dedup();
    let map: HashMap<usize, usize> = used.iter().enumerate().map(|(new, old)| (*old, new)).collect();
    plan.pool = used.iter().map(|i| plan.pool[*i].clone()).collect();
    for p in &mut plan.processes {
        for t in &mut p.threads {
            for j in &mut t.jobs {
                *j = map[j];
            }
        }
    }
}

fn minimise(scratch: &Scratch, golden: &Golden, plan: &RunPlan, class: &str) -> (RunPlan, u32) {
    let mut best = plan.clone();
    let mut steps = 0;
    macro_rules! attempt {
        ($cand:expr) => {{
            let cand: RunPlan = $cand;
            if cand != best
                && cand.processes.iter().all(|p| !p.threads.is_empty() && p.threads.iter().all(|t| !t.jobs.is_empty()))
                && !cand.processes.is_empty()
                && still_fails(scratch, golden, &cand, class)
            {
                best = cand;
                steps += 1;
                true
            } else {
                false
            }
        }};
    }
    // processes
    let mut i = 0;
    while best.processes.len() > 1 && i < best.processes.len() {
        let mut c = best.clone();
        c.processes.remove(i);
        if !attempt!(c) {
            i += 1;
        }
    }
    // threads
    for pi in 0..best.processes.len() {
        let mut ti = 0;
        while best.processes[pi].threads.len() > 1 && ti < best.processes[pi].threads.len() {
            let mut c = best.clone();
            c.processes[pi].threads.remove(ti);
            c.processes[pi].sched.crash_points.retain(|(t, _)| *t != ti);
            for cp in &mut c.processes[pi].sched.crash_points {
                if cp.0 > ti {
                    cp.0 -= 1;
                }
            }
            if !attempt!(c) {
                ti += 1;
            }
        }
    }
    // jobs
    for pi in 0..best.processes.len() {
        for ti in 0..best.processes[pi].threads.len() {
            let mut ji = 0;
            while best.processes[pi].threads[ti].jobs.len() > 1 && ji < best.processes[pi].threads[ti].jobs.len() {
                let mut c = best.clone();
                c.processes[pi].threads[ti].jobs.remove(ji);
                if !attempt!(c) {
                    ji += 1;
                }
            }
        }
    }
    // faults and perturbations
    for pi in 0..best.processes.len() {
        let mut c = best.clone();
        c.processes[pi].sched.crash_points.clear();
        attempt!(c);
        let mut c = best.clone();
        c.processes[pi].sched.policy = Policy::Random { preempt_permille: 0 };
        attempt!(c);
        let mut c = best.clone();
        c.processes[pi].env = canonical_env();
        attempt!(c);
        let mut c = best.clone();
        c.processes[pi].clock_skew_s = 0;
        c.processes[pi].clock_jump_s = 0;
        attempt!(c);
        let mut c = best.clone();
        c.processes[pi].cwd_kind = 0;
        attempt!(c);
        let mut c = best.clone();
        c.processes[pi].cpus = 0;
        attempt!(c);
        let mut c = best.clone();
        c.processes[pi].tick_ns = 0;
        attempt!(c);
        let mut c = best.clone();
        c.processes[pi].fmt.think_us = 0;
        attempt!(c);
        let mut c = best.clone();
        for t in &mut c.processes[pi].threads {
            t.alloc_point_every = 0;
        }
        attempt!(c);
        let mut c = best.clone();
        for t in &mut c.processes[pi].threads {
            t.failing_spawns.clear();
        }
        attempt!(c);
        for ti in 0..best.processes[pi].threads.len() {
            let mut c = best.clone();
            c.processes[pi].threads[ti].entropy = 1;
            attempt!(c);
        }
        // individual environment variables
        let mut ei = 0;
        while ei < best.processes[pi].env.len() {
            let mut c = best.clone();
            c.processes[pi].env.remove(ei);
            if !attempt!(c) {
                ei += 1;
            }
        }
    }
    compact_pool(&mut best);
    // simpler jobs
    for ji in 0..best.pool.len() {
        let mut c = best.clone();
        c.pool[ji].options = Opts::plain();
        attempt!(c);
        let mut c = best.clone();
        c.pool[ji].shader = ShaderRef::Repo {
            path: "wgsl_to_wgpu/src/data/fragment_simple.wgsl".into(),
        };
        attempt!(c);
        let mut c = best.clone();
        c.pool[ji].include_path = None;
        attempt!(c);
    }
    (best, steps)
}

// ---------------------------------------------------------------------------------------------
// Batch driver

#[derive(Default)]
struct Tally {
    runs: u64,
    stats: RunStats,
    distinct_logs: HashSet<u64>,
    distinct_interleaved_logs: HashSet<u64>,
    failures: Vec<(u64, RunPlan, Divergence)>,
    samples: Vec<serde_json::Value>,
    policies: BTreeMap<String, u64>,
    /// names of the files and variables the calls asked for in vain
    probe_names: std::collections::BTreeSet<String>,
}

fn add_stats(a: &mut RunStats, b: &RunStats) {
    a.processes += b.processes;
    a.threads += b.threads;
    a.calls += b.calls;
    a.steps += b.steps;
    a.switches += b.switches;
    a.switches_inside_call += b.switches_inside_call;
    a.crashes_fired += b.crashes_fired;
    a.stall_handoffs += b.stall_handoffs;
    a.formatter_spawn_faults += b.formatter_spawn_faults;
    a.entropy_requests += b.entropy_requests;
    a.realtime_reads += b.realtime_reads;
    a.formatter_spawns += b.formatter_spawns;
    a.unreaped_children += b.unreaped_children;
    a.helper_threads += b.helper_threads;
    a.processes_with_more_open_fds_after_the_calls += b.processes_with_more_open_fds_after_the_calls;
    a.processes_with_threads_left_running += b.processes_with_threads_left_running;
    a.file_probes_recorded += b.file_probes_recorded;
    a.env_probes_recorded += b.env_probes_recorded;
    a.dir_probes_recorded += b.dir_probes_recorded;
    a.plans_rerun_with_planted_files += b.plans_rerun_with_planted_files;
    a.alloc_points += b.alloc_points;
    a.virtual_sleeps += b.virtual_sleeps;
    a.same_job_on_two_threads += b.same_job_on_two_threads;
    a.same_job_twice_on_one_thread += b.same_job_twice_on_one_thread;
    a.same_job_in_two_processes += b.same_job_in_two_processes;
    a.err_outcomes += b.err_outcomes;
    a.panic_outcomes += b.panic_outcomes;
    a.ok_outcomes += b.ok_outcomes;
    a.env_perturbed += b.env_perturbed;
    a.clock_skewed += b.clock_skewed;
    a.calls_after_a_crash += b.calls_after_a_crash;
}

fn plan_summary(plan: &RunPlan) -> serde_json::Value {
    json!({
        "pool": plan.pool.iter().map(|j| j.describe()).collect::<Vec<_>>(),
        "processes": plan.processes.iter().map(|p| json!({
            "threads": p.threads.iter().map(|t| t.jobs.clone()).collect::<Vec<_>>(),
            "policy": p.sched.policy,
            "crash_points": p.sched.crash_points,
            "env_vars": p.env.iter().map(|(k, _)| k.clone()).collect::<Vec<_>>(),
            "cwd_kind": p.cwd_kind,
            "cpus": p.cpus,
            "tick_ns": p.tick_ns,
            "clock_skew_years": p.clock_skew_s / (365 * 24 * 3600),
        })).collect::<Vec<_>>(),
    })
}

fn run_batch(scratch: &Scratch, golden: &Golden, seed: u64, n: u64) -> Result<Tally, String> {
    let next = AtomicU64::new(0);
    let total = Mutex::new(Tally::default());
    let error = Mutex::new(None::<String>);
    std::thread::scope(|scope| {
        for _ in 0..crate::workers() {
            scope.spawn(|| {
                let mut local = Tally::default();
                loop {
                    let i = next.fetch_add(1, Ordering::Relaxed);
                    if i >= n || error.lock().unwrap().is_some() {
                        break;
                    }
                    let plan = plan_for_run(seed, i);
                    match execute(scratch, golden, &plan, false) {
                        Ok(r) => {
                            local.runs += 1;
                            add_stats(&mut local.stats, &r.stats);
                            local.distinct_logs.insert(r.log_hash);
                            if r.stats.switches_inside_call > 0 {
                                local.distinct_interleaved_logs.insert(r.log_hash);
                            }
                            for p in &plan.processes {
                                let name = match &p.sched.policy {
                                    Policy::Random { preempt_permille } => format!("random_p{preempt_permille}"),
                                    Policy::Pct { change_points } => format!("pct_d{}", change_points.len()),
                                    Policy::Free => "free_running_uncontrolled".to_string(),
                                };
                                *local.policies.entry(name).or_default() += 1;
                            }
                            if local.samples.len() < 2 && i % 41 == 5 {
                                local.samples.push(json!({
                                    "run": i, "plan": plan_summary(&plan), "steps": r.stats.steps,
                                    "context_switches_inside_calls": r.stats.switches_inside_call,
                                    "event_log_hash": format!("{:016x}", r.log_hash),
                                }));
                            }
                            let clean = r.divergences.is_empty();
                            for name in r.probed_env.iter().flatten() {
                                local.probe_names.insert(format!("env:{name}"));
                            }
                            for path in r.probed.iter().flatten() {
                                if local.probe_names.len() < 200 {
                                    local.probe_names.insert(format!("file:{path}"));
                                }
                            }
                            for path in r.probed_dirs.iter().flatten() {
                                if local.probe_names.len() < 200 {
                                    local.probe_names.insert(format!("dir:{path}"));
                                }
                            }
                            for d in r.divergences {
                                if local.failures.len() < 16 {
                                    local.failures.push((i, plan.clone(), d));
                                }
                            }
                            // The calls looked for files that do not exist: run the same plan with
                            // those files present. If the answer changes, the file is an input.
                            let plantable = |p: &Vec<String>| p.iter().any(|f| f.starts_with("$RUN/"));
                            if clean
                                && (r.probed.iter().any(plantable)
                                    || r.probed_env.iter().any(|e| !e.is_empty())
                                    || r.probed_dirs.iter().any(plantable))
                            {
                                // Second executions of the same plan: with the files present, with
                                // the variables set to "1" (a switch), with the variables naming a
                                // planted file (a path) next to the planted files. Separately: a
                                // variable that is set may stop the code from looking for the file.
                                let files_of = |looked_for: &Vec<String>| -> Vec<String> {
                                    looked_for.iter().filter(|f| f.starts_with("$RUN/")).cloned().collect()
                                };
                                let mut variants: Vec<RunPlan> = Vec::new();
                                if r.probed.iter().any(plantable) {
                                    let mut v = plan.clone();
                                    for (process, looked_for) in v.processes.iter_mut().zip(&r.probed) {
                                        process.plant_files = files_of(looked_for);
                                    }
                                    variants.push(v);
                                }
                                if r.probed_env.iter().any(|e| !e.is_empty()) {
                                    for as_path in [false, true] {
                                        let mut v = plan.clone();
                                        for ((process, asked_for), looked_for) in v.processes.iter_mut().zip(&r.probed_env).zip(&r.probed) {
                                            if as_path {
                                                process.plant_files = files_of(looked_for);
                                                process.plant_files.push("$RUN/named-by-a-variable.toml".to_string());
                                            }
                                            for name in asked_for {
                                                if !process.env.iter().any(|(k, _)| k == name) {
                                                    let value = if as_path { "$RUN/named-by-a-variable.toml" } else { "1" };
                                                    process.env.push((name.clone(), value.to_string()));
                                                }
                                            }
                                        }
                                        variants.push(v);
                                    }
                                }
                                if r.probed_dirs.iter().any(plantable) {
                                    // the directories the calls list exist and hold near misses
                                    let mut v = plan.clone();
                                    for (process, listed) in v.processes.iter_mut().zip(&r.probed_dirs) {
                                        process.plant_dirs = files_of(listed);
                                    }
                                    variants.push(v);
                                }
                                let mut failed = false;
                                for planted in variants {
                                    match execute(scratch, golden, &planted, false) {
                                        Ok(r2) => {
                                            local.stats.plans_rerun_with_planted_files += 1;
                                            for d in r2.divergences {
                                                if local.failures.len() < 16 {
                                                    local.failures.push((i, planted.clone(), d));
                                                }
                                            }
                                        }
                                        Err(e) => {
                                            *error.lock().unwrap() = Some(format!("run {i} (planted files or variables): {e}"));
                                            failed = true;
                                            break;
                                        }
                                    }
                                }
                                if failed {
                                    break;
                                }
                            }
                        }
                        Err(e) => {
                            *error.lock().unwrap() = Some(format!("run {i}: {e}"));
                            break;
                        }
                    }
                }
                let mut t = total.lock().unwrap();
                t.runs += local.runs;
                add_stats(&mut t.stats, &local.stats);
                t.distinct_logs.extend(local.distinct_logs);
                t.distinct_interleaved_logs.extend(local.distinct_interleaved_logs);
                t.failures.extend(local.failures);
                t.samples.extend(local.samples);
                t.probe_names.extend(local.probe_names);
                for (k, v) in local.policies {
                    *t.policies.entry(k).or_default() += v;
                }
            });
        }
    });
    if let Some(e) = error.into_inner().unwrap() {
        return Err(e);
    }
    let mut t = total.into_inner().unwrap();
    t.failures.sort_by_key(|(i, _, _)| *i);
    t.samples.sort_by_key(|s| s["run"].as_u64().unwrap_or(0));
    t.samples.truncate(4);
    Ok(t)
}

fn replay_doc(seed: u64, run: u64, plan: &RunPlan, d: &Divergence, r: &RunResult, exact: bool, original: &RunPlan, steps: u32) -> serde_json::Value {
    json!({
        "property": "C18",
        "seed": seed,
        "run": run,
        "failure_class": d.class,
        "detail": d.detail,
        "plan": plan,
        "job": d.job,
        "source": d.job.as_ref().map(|j| j.shader.source()),
        "expected": d.expected,
        "actual": d.actual,
        "event_log_hash": format!("{:016x}", r.log_hash),
        "replay_exact": exact,
        "event_logs": r.logs,
        "minimised_from": {
            "processes": original.processes.len(),
            "threads": original.processes.iter().map(|p| p.threads.len()).sum::<usize>(),
            "jobs": original.processes.iter().flat_map(|p| p.threads.iter()).map(|t| t.jobs.len()).sum::<usize>(),
            "accepted_shrink_steps": steps,
        },
    })
}

pub fn main(tier: Tier) -> i32 {
    let start = std::time::Instant::now();
    let seed = crate::verif_seed();
    println!("C18 tier={} VERIF_SEED={seed} workers={}", tier.name(), crate::workers());
    let known = match known::Known::load() {
        Ok(k) => k,
        Err(e) => {
            eprintln!("HARNESS-ERROR {e}");
            return 2;
        }
    };
    let scratch = match Scratch::new() {
        Ok(s) => s,
        Err(e) => {
            eprintln!("HARNESS-ERROR {e}");
            return 2;
        }
    };
    let golden: Golden = Mutex::new(HashMap::new());
    let n: u64 = std::env::var("VERIF_C18_RUNS")
        .ok()
        .and_then(|s| s.parse().ok())
        .unwrap_or(match tier {
            Tier::Quick => 400,
            Tier::Thorough => 60_000,
        });
    let tally = match run_batch(&scratch, &golden, seed, n) {
        Ok(t) => t,
        Err(e) => {
            eprintln!("HARNESS-ERROR {e}");
            return 2;
        }
    };

    // determinism slice: same plan, two executions, event-log hashes must agree
    // (skipped when the batch already found divergences: the tree violates the property and the
    // violation report below is what matters)
    let det_n = if tier == Tier::Quick { 24 } else { 400 };
    for k in 0..(if tally.failures.is_empty() { det_n.min(n) } else { 0 }) {
        let plan = plan_for_run(seed, (k * 13) % n.max(1));
        let a = execute(&scratch, &golden, &plan, false);
        let b = execute(&scratch, &golden, &plan, false);
        match (a, b) {
            (Ok(a), Ok(b)) if a.log_hash == b.log_hash => {}
            (Ok(a), Ok(b)) => {
                // On a tree that violates C18 the outcomes themselves may flip; only complain
                // when no divergence explains it. Runs in which the baton holder blocked outside
                // the seams (stall handoff) are timing dependent by nature.
                if a.divergences.is_empty()
                    && b.divergences.is_empty()
                    && a.stats.stall_handoffs == 0
                    && b.stats.stall_handoffs == 0
                    && a.stats.helper_threads == 0
                    && b.stats.helper_threads == 0
                {
                    eprintln!("HARNESS-ERROR determinism self-check: run {} gave two different event logs", (k * 13) % n.max(1));
                    return 2;
                }
            }
            (Err(e), _) | (_, Err(e)) => {
                eprintln!("HARNESS-ERROR {e}");
                return 2;
            }
        }
    }

    let mut lines = Vec::new();
    let mut violations = 0;
    let mut known_hits = 0;
    let mut seen = HashSet::new();
    for (run, plan, d) in &tally.failures {
        if !seen.insert(d.class.clone()) {
            continue;
        }
        let trigger = d.job.as_ref().map(|j| j.describe()).unwrap_or_default();
        if let Some(k) = known.lookup("C18", &d.class, &trigger) {
            known_hits += 1;
            lines.push(format!("KNOWN-FINDING: property=C18 {} {}", d.class, k.what));
            continue;
        }
        let (min, steps) = minimise(&scratch, &golden, plan, &d.class);
        // final execution with logs; a divergence that does not show again is still a violation
        // (two different outcomes for equal inputs are in hand), recorded as replay_exact=false
        let (result, divergence, exact) = match execute(&scratch, &golden, &min, true) {
            Ok(r) => match r.divergences.iter().find(|x| x.class == d.class).cloned() {
                Some(dd) => {
                    let again = execute(&scratch, &golden, &min, false).ok();
                    let exact = again.map(|a| a.log_hash == r.log_hash).unwrap_or(false);
                    (r, dd, exact)
                }
                None => (r, d.clone(), false),
            },
            Err(e) => {
                eprintln!("HARNESS-ERROR {e}");
                return 2;
            }
        };
        let doc = replay_doc(seed, *run, &min, &divergence, &result, exact, plan, steps);
        match evidence::write_replay("C18", &format!("{seed}-{run}"), &doc) {
            Ok(path) => {
                violations += 1;
                let planted: Vec<&String> = min
                    .processes
                    .iter()
                    .flat_map(|p| p.plant_files.iter().chain(p.plant_dirs.iter()))
                    .collect();
                lines.push(format!(
                    "C18 violation: {} (process {}, {}){} replay_exact={exact}",
                    divergence.class,
                    divergence.process,
                    divergence.detail.chars().take(300).collect::<String>(),
                    if planted.is_empty() {
                        String::new()
                    } else {
                        format!(" once the files the calls look for exist: {planted:?}")
                    }
                ));
                lines.push(format!("VIOLATION property=C18 replay={}", path.display()));
            }
            Err(e) => {
                eprintln!("HARNESS-ERROR {e}");
                return 2;
            }
        }
    }

    let wall = start.elapsed().as_secs_f64();
    let s = &tally.stats;
    let probes = [
        ("same_job_on_two_threads", s.same_job_on_two_threads),
        ("same_job_twice_on_one_thread", s.same_job_twice_on_one_thread),
        ("same_job_in_two_processes", s.same_job_in_two_processes),
        ("context_switches_inside_calls", s.switches_inside_call),
        ("crashes_injected_mid_call", s.crashes_fired),
        ("calls_after_a_crash_in_same_process", s.calls_after_a_crash),
        ("err_outcomes_compared", s.err_outcomes),
        ("panic_outcomes_compared", s.panic_outcomes),
        ("processes_with_perturbed_env", s.env_perturbed),
        ("processes_with_clock_skew", s.clock_skewed),
        ("entropy_requests_served_by_simulator", s.entropy_requests),
        ("formatter_spawns_through_seam", s.formatter_spawns),
        ("scheduling_points_at_heap_allocations", s.alloc_points),
    ];
    let unreached: Vec<&str> = probes.iter().filter(|(_, n)| *n == 0).map(|(k, _)| *k).collect();
    for u in &unreached {
        println!("warning: probe `{u}` was never reached in this batch");
    }
    let coverage = json!({
        "evaluations": tally.runs,
        "distinct_nontrivial": tally.distinct_interleaved_logs.len(),
        "rule": "one evaluation = one simulated run: 1-3 fresh OS processes (own env, cwd, program name, identity, wall-clock skew), each with 1-6 simulated threads under the seeded baton scheduler executing queues of 1-6 jobs drawn with replacement from a pool of 2-8 jobs (repo shaders, generated shaders, sibling shaders, deep shaders, rejected sources x 30 option sets x include/embedded); 3 % of the runs are long histories (one process, 70-280 calls per thread over 18-48 inputs), 5 % uncontrolled stress runs; every outcome compared byte-for-byte with the golden table filled by pristine single-job processes (a second table for calls whose formatter cannot be started); plans whose calls ask for files, directories or variables in vain are executed again with those present; distinct_nontrivial = distinct event-log hashes among runs with at least one context switch inside a library call",
        "samples": tally.samples,
        "exhaustive": false,
        "library_calls_compared": s.calls,
        "simulated_processes": s.processes,
        "simulated_threads": s.threads,
        "golden_table_entries": golden.lock().unwrap().len(),
        "scheduling_points": s.steps,
        "context_switches": s.switches,
        "distinct_event_logs": tally.distinct_logs.len(),
        "runs_per_hour": evidence::per_hour(tally.runs, wall),
        "calls_per_hour": evidence::per_hour(s.calls, wall),
        "simulated_time_ticks": s.steps,
        "policies": tally.policies,
        "fault_kinds_fired": {
            "caller_crash_mid_call": s.crashes_fired,
            "formatter_could_not_be_started_in_an_earlier_call": s.formatter_spawn_faults,
            "fresh_hash_seeds_per_thread": s.threads,
            "perturbed_environment": s.env_perturbed,
            "clock_skew_or_jump": s.clock_skewed,
        },
        "probes": probes.iter().map(|(k, v)| (k.to_string(), json!(v))).collect::<BTreeMap<_, _>>(),
        "unreached_probes": unreached,
        "outcome_classes_compared": {"ok": s.ok_outcomes, "err": s.err_outcomes, "panic": s.panic_outcomes},
        "realtime_clock_reads_in_workers": s.realtime_reads,
        "formatter_children_not_reaped": s.unreaped_children,
        "helper_threads_created_by_the_code_under_test_uncontrolled": s.helper_threads,
        "processes_with_more_open_fds_after_the_calls_informational": s.processes_with_more_open_fds_after_the_calls,
        "processes_with_threads_left_running_informational": s.processes_with_threads_left_running,
        "missing_files_the_calls_looked_for": s.file_probes_recorded,
        "unset_environment_variables_the_calls_asked_for": s.env_probes_recorded,
        "directories_the_calls_listed": s.dir_probes_recorded,
        "plans_rerun_with_those_files_planted": s.plans_rerun_with_planted_files,
        "names_asked_for_in_vain": tally.probe_names.iter().take(40).collect::<Vec<_>>(),
        "stall_handoffs_baton_holder_blocked_outside_seams": s.stall_handoffs,
        "determinism_pairs_checked": det_n,
        "known_findings_hit": known_hits,
        "components": {
            "real": ["wgsl_to_wgpu::create_shader_module* on real OS threads in real fresh processes; std RandomState (keys from the simulator through the getrandom seam); real environment, cwd, file system"],
            "stub": ["thread scheduling (baton scheduler at verif_point! sites, formatter seam calls, virtual sleeps, every n-th heap allocation)", "formatter process (fault-free procsim model; some spawns fail)", "OS entropy, wall clock (clock_gettime/time/gettimeofday), sleeps, CPU count, host name, user id, parent pid, isatty (interposed)", "answers to file, directory and environment lookups that fail on the first execution (planted on the second)"],
        },
    });
    if let Err(e) = evidence::write(
        "C18",
        tier,
        seed,
        "exploration",
        coverage,
        &[
            "interleavings are explored at the granularity of the verif_point! sites, formatter seam calls, virtual sleeps and (in half of the processes) every n-th heap allocation; allocation-free code between two sites is atomic to the scheduler; helper threads the code under test starts itself run freely",
            "ASLR, pids and OS thread ids are not behind a seam (DESIGN §3, uncontrolled residue)",
            "planted files have generic contents, planted variables are set to 1 or to the path of a planted file; only paths inside the run's sandbox can be planted",
            "simulated processes of one run execute one after the other; concurrent runs of the batch share /tmp",
        ],
        wall,
        violations,
    ) {
        eprintln!("HARNESS-ERROR {e}");
        return 2;
    }
    for l in &lines {
        println!("{l}");
    }
    println!(
        "C18 {}: {} runs, {} calls compared, {} processes, {} threads, {} context switches inside calls, {} interleaved logs, {} violations, {} known, {:.1}s",
        tier.name(), tally.runs, s.calls, s.processes, s.threads, s.switches_inside_call,
        tally.distinct_interleaved_logs.len(), violations, known_hits, wall
    );
    if violations > 0 {
        1
    } else {
        0
    }
}

pub fn replay(path: &str, doc: &serde_json::Value) -> i32 {
    let plan: RunPlan = match serde_json::from_value(doc["plan"].clone()) {
        Ok(p) => p,
        Err(e) => {
            eprintln!("HARNESS-ERROR bad replay file: {e}");
            return 2;
        }
    };
    let scratch = match Scratch::new() {
        Ok(s) => s,
        Err(e) => {
            eprintln!("HARNESS-ERROR {e}");
            return 2;
        }
    };
    let golden: Golden = Mutex::new(HashMap::new());
    let want_class = doc["failure_class"].as_str().unwrap_or("");
    let want_hash = doc["event_log_hash"].as_str().unwrap_or("");
    // A divergence from sources outside every seam may need more than one attempt.
    let attempts = if doc["replay_exact"].as_bool().unwrap_or(true) { 1 } else { 20 };
    for attempt in 0..attempts {
        let r = match execute(&scratch, &golden, &plan, attempt == 0) {
            Ok(r) => r,
            Err(e) => {
                eprintln!("HARNESS-ERROR {e}");
                return 2;
            }
        };
        if attempt == 0 {
            for (pi, log) in r.logs.iter().enumerate() {
                println!("process {pi}: {} scheduling events", log.len());
                for line in log.iter().take(60) {
                    println!("  {line}");
                }
            }
        }
        if let Some(d) = r.divergences.first() {
            let hash = format!("{:016x}", r.log_hash);
            let exact = r.divergences.iter().any(|d| d.class == want_class) && hash == want_hash;
            println!(
                "{} class={} hash={hash}",
                if exact { "REPLAY-EXACT" } else { "REPLAY-DIFFERS" },
                d.class
            );
            println!("{} :: {}", d.class, d.detail);
            println!("VIOLATION property=C18 replay={path}");
            return 1;
        }
    }
    println!("replay {path}: no divergence on this tree (recorded class was {want_class})");
    0
}

/// Debugging aid: execute one plan of the default batch several times and show where logs differ.
pub fn debug_plan(index: u64) -> i32 {
    let seed = crate::verif_seed();
    let scratch = Scratch::new().unwrap();
    let golden: Golden = Mutex::new(HashMap::new());
    let plan = plan_for_run(seed, index);
    let mut first: Option<RunResult> = None;
    for attempt in 0..12 {
        let r = execute(&scratch, &golden, &plan, true).unwrap();
        match &first {
            None => first = Some(r),
            Some(f) => {
                if f.log_hash != r.log_hash {
                    for (pi, (a, b)) in f.logs.iter().zip(r.logs.iter()).enumerate() {
                        let pos = a.iter().zip(b.iter()).position(|(x, y)| x != y);
                        println!("attempt {attempt}: process {pi}: lens {} {} first diff at {:?}", a.len(), b.len(), pos);
                        if let Some(p) = pos {
                            for k in p.saturating_sub(4)..(p + 4).min(a.len()).min(b.len()) {
                                println!("   {:40} | {}", a[k], b[k]);
                            }
                        }
                    }
                    println!("stall handoffs: {} vs {}", f.stats.stall_handoffs, r.stats.stall_handoffs);
                    return 1;
                }
            }
        }
    }
    println!("12 executions, identical logs");
    0
}

pub fn selftest() -> i32 {
    let seed = crate::verif_seed();
    let scratch = match Scratch::new() {
        Ok(s) => s,
        Err(e) => {
            eprintln!("HARNESS-ERROR {e}");
            return 2;
        }
    };
    let golden: Golden = Mutex::new(HashMap::new());
    let n = 300u64;
    let mut diff = 0;
    let excused = AtomicU64::new(0);
    for workers in [1usize, 16] {
        std::env::set_var("VERIF_WORKERS", workers.to_string());
        let hashes = Mutex::new(vec![(0u64, 0u64); n as usize]);
        let next = AtomicU64::new(0);
        std::thread::scope(|s| {
            for _ in 0..workers {
                s.spawn(|| loop {
                    let i = next.fetch_add(1, Ordering::Relaxed);
                    if i >= n {
                        break;
                    }
                    let plan = plan_for_run(seed, i);
                    // executions in which the baton holder blocked outside the seams (stall
                    // handoff) or the code under test ran threads of its own are timing dependent
                    // by nature: they are reported, not counted as a difference
                    let digest = |r: Result<RunResult, String>, fallback: u64| match r {
                        Ok(r) if r.stats.stall_handoffs > 0 || r.stats.helper_threads > 0 => {
                            excused.fetch_add(1, Ordering::Relaxed);
                            0
                        }
                        Ok(r) => r.log_hash,
                        Err(e) => {
                            eprintln!("  plan {i}: {e}");
                            fallback
                        }
                    };
                    let a = digest(execute(&scratch, &golden, &plan, false), 1);
                    let b = digest(execute(&scratch, &golden, &plan, false), 2);
                    let pair = if a == 0 || b == 0 { (0, 0) } else { (a, b) };
                    hashes.lock().unwrap()[i as usize] = pair;
                });
            }
        });
        for (i, (a, b)) in hashes.lock().unwrap().iter().enumerate() {
            if a != b {
                diff += 1;
                let plan = plan_for_run(seed, i as u64);
                println!("  differing plan {i} (workers {workers}): {}", plan_summary(&plan));
            }
        }
    }
    println!(
        "C18 selftest: {n} plans x 2 executions x worker counts (1, 16): {diff} differing event logs, {} executions excused (stall handoff or helper threads)",
        excused.load(Ordering::Relaxed)
    );
    if diff == 0 {
        0
    } else {
        eprintln!("HARNESS-ERROR C18 simulation is not deterministic");
        2
    }
}
