//! Evidence files: written from the harness's own counters on every run.

use crate::Tier;
use serde_json::{json, Value};

pub fn write(
    property: &str,
    tier: Tier,
    seed: u64,
    level: &str,
    coverage: Value,
    assumptions: &[&str],
    wall_s: f64,
    violations: usize,
) -> Result<(), String> {
    let dir = crate::verif_dir().join("evidence");
    std::fs::create_dir_all(&dir).map_err(|e| format!("create {dir:?}: {e}"))?;
    let doc = json!({
        "property_id": property,
        "tier": tier.name(),
        "seed": seed,
        "level": level,
        "coverage": coverage,
        "assumptions": assumptions,
        "wall_s": (wall_s * 1000.0).round() / 1000.0,
        "violations": violations,
    });
    let path = dir.join(format!("{property}.json"));
    let tmp = dir.join(format!("{property}.json.tmp"));
    let text = serde_json::to_string_pretty(&doc).map_err(|e| e.to_string())?;
    std::fs::write(&tmp, text + "\n").map_err(|e| format!("write {tmp:?}: {e}"))?;
    std::fs::rename(&tmp, &path).map_err(|e| format!("rename {path:?}: {e}"))?;
    Ok(())
}

pub fn per_hour(n: u64, wall_s: f64) -> u64 {
    if wall_s <= 0.0 {
        0
    } else {
        (n as f64 * 3600.0 / wall_s) as u64
    }
}

pub fn write_replay(property: &str, name: &str, doc: &Value) -> Result<std::path::PathBuf, String> {
    let dir = crate::verif_dir().join("replays");
    std::fs::create_dir_all(&dir).map_err(|e| format!("create {dir:?}: {e}"))?;
    let path = dir.join(format!("{property}-{name}.json"));
    let text = serde_json::to_string_pretty(doc).map_err(|e| e.to_string())?;
    std::fs::write(&path, text + "\n").map_err(|e| format!("write {path:?}: {e}"))?;
    Ok(path)
}
