//! C20 — generation cost stays polynomial (DESIGN §5): a virtual clock instead of wall-clock.
//!
//! Every `verif_point!` the call passes is one tick. A call must finish within
//! `B(src) = 4·L² + 10_000` ticks, `L` = number of identifier/number tokens of the source; the
//! backend aborts the call the moment the budget is exceeded, so runaway inputs cost milliseconds.
//! Un-hooked work is bounded by a CPU-time limit on the batch process (backstop).

use crate::corpus::{self, Opts, Outcome};
use crate::rng::{self, Rng};
use crate::{evidence, known, Sentinel, Tier};
use serde::{Deserialize, Serialize};
use serde_json::json;
use std::cell::{Cell, RefCell};
use std::collections::{BTreeMap, HashSet};
use std::fmt::Write as _;
use std::io::Write as _;
use std::sync::Arc;
use wgsl_to_wgpu::verif_hooks::{self, process::ChildIo, process::SpawnSpec, Backend};

#[derive(Debug, Clone, Serialize, Deserialize, PartialEq, Eq, Hash)]
#[serde(tag = "family", rename_all = "snake_case")]
pub enum Family {
    /// f_i calls f_{i-1} once. kind: 0 value-returning, 1 void, 2 alternating.
    Chain {
        depth: u32,
        kind: u8,
        placement: u8,
        /// helpers touch no global variable at all (pure math helpers)
        #[serde(default)]
        pure_helpers: bool,
        /// value-returning helpers also take a `ptr<function, f32>` argument
        #[serde(default)]
        ptr_args: bool,
    },
    /// f_i calls f_{i-1} `fan` times (two or more call sites per level).
    Diamond {
        depth: u32,
        fan: u32,
        kind: u8,
        placement: u8,
        #[serde(default)]
        pure_helpers: bool,
        #[serde(default)]
        ptr_args: bool,
    },
    /// One shared helper called from `sites` call sites of each of `callers` functions.
    Fanout { sites: u32, callers: u32, kind: u8 },
    /// Layered DAG: `width` functions per layer, each calling 1..=`callees` functions one layer down.
    Dag {
        depth: u32,
        width: u32,
        callees: u32,
        seed: u64,
        entries: u32,
        #[serde(default)]
        pure_helpers: bool,
    },
    /// Struct nesting: level i has `members` members of level i-1's struct; `globals` variables use the top.
    Types { depth: u32, members: u32, globals: u32, arrays: bool },
    /// No depth at all: about `tokens` tokens of flat declarations (size control).
    Flat { functions: u32, structs: u32, bindings: u32 },
    /// Chain of override (kind 0) or const (kind 1) declarations, each initialised from the
    /// previous one `fan` times; the last one is used as a workgroup size and in an entry point.
    Decls { depth: u32, fan: u32, kind: u8 },
    /// n buffers, n small helpers behind one shared fan-out helper, n entry points each touching
    /// its own buffer: hundreds of declarations, call depth 3.
    KernelLib { n: u32 },
    /// Many globals AND a deep call graph: `globals` uniform bindings read by eight leaf helpers,
    /// a shared helper calling all leaves, `helpers` fan-out helpers calling the shared one twice,
    /// and a diamond chain of `depth` levels with `fan` calls per level on top. Propagating
    /// "which globals does this function reach" must not cost depth x call sites x globals^2.
    GlobalsGraph { depth: u32, fan: u32, globals: u32, helpers: u32 },
    /// Other dimensions along which a shader can be "large": 0 array nesting depth, 1 identifier
    /// length, 2 number of vertex attributes, 3 number of constants and overrides, 4 kilobytes of
    /// comments, 5 block nesting depth inside one function, 6 switch cases / loops with calls,
    /// 7 let-bound expressions each used twice by the next (a DAG with 2^n paths), 8 call results as
    /// call arguments nested n deep, 9 one expression of n terms that are calls,
    /// 10 n bind groups, 11 an unused prelude (push constant, globals, helpers) over a diamond.
    Shapes { shape: u8, n: u32 },
    /// Programs that are REJECTED, at size: 0 hundreds of bindings but no group 0, 1 hundreds of
    /// bindings and one duplicate at the very end, 2 a large valid program with a syntax error in
    /// its last line, 3 a large program with a type error in its last function (validation).
    /// Deciding "no" and building the diagnostic must stay as cheap as saying "yes".
    Rejected { kind: u8, n: u32 },
    /// Small programs with huge NUMBERS in them: binding and group indices near u32::MAX, array
    /// lengths in the hundreds of millions, large workgroup sizes and override ids. Cost must
    /// follow the size of the text, not the magnitude of its literals.
    Magnitude { bindings: u32, seed: u64 },
    /// Every dimension at once, in a few hundred compact lines: a chain (fan 1) or diamond (fan 2)
    /// of `depth` helpers, each reading a global of its own, and `entries` entry points that each
    /// call into the chain at some level. `callers_first`: helper names sort callers before
    /// callees (h000 calls h001 ...) or the other way round - an analysis that iterates "until
    /// nothing changes" in name order needs one round per level in one of the two.
    EntriesOnChain { depth: u32, entries: u32, fan: u32, callers_first: bool },
    /// Breadth instead of depth: many entry points x many globals x many members x vertex inputs.
    Wide { entries: u32, globals: u32, members: u32, vertex_structs: u32 },
}

impl Family {
    pub fn name(&self) -> &'static str {
        match self {
            Family::Chain { ptr_args: true, .. } => "chain_ptr_args",
            Family::Diamond { ptr_args: true, .. } => "diamond_ptr_args",
            Family::KernelLib { .. } => "kernel_library",
            Family::Magnitude { .. } => "huge_literals",
            Family::Rejected { kind: 0, .. } => "rejected_group_numbering",
            Family::Rejected { kind: 1, .. } => "rejected_duplicate_binding",
            Family::Rejected { kind: 2, .. } => "rejected_parse_error",
            Family::Rejected { .. } => "rejected_validation_error",
            Family::Shapes { shape: 0, .. } => "array_nesting",
            Family::Shapes { shape: 1, .. } => "long_identifiers",
            Family::Shapes { shape: 2, .. } => "many_vertex_attributes",
            Family::Shapes { shape: 3, .. } => "many_consts_and_overrides",
            Family::Shapes { shape: 4, .. } => "big_comments",
            Family::Shapes { shape: 5, .. } => "block_nesting",
            Family::Shapes { shape: 6, .. } => "switch_cases_and_loops",
            Family::Shapes { shape: 7, .. } => "expression_dag",
            Family::Shapes { shape: 8, .. } => "nested_call_arguments",
            Family::Shapes { shape: 9, .. } => "long_expression_chain",
            Family::Shapes { shape: 10, .. } => "many_bind_groups",
            Family::Shapes { .. } => "unused_prelude_over_diamond",
            Family::GlobalsGraph { .. } => "globals_x_call_graph",
            Family::Chain { pure_helpers: true, .. } => "chain_pure",
            Family::Diamond { pure_helpers: true, .. } => "diamond_pure",
            Family::Dag { pure_helpers: true, .. } => "layered_dag_pure",
            Family::Chain { kind: 0, .. } => "chain_value",
            Family::Chain { kind: 1, .. } => "chain_void",
            Family::Chain { .. } => "chain_mixed",
            Family::Diamond { kind: 0, .. } => "diamond_value",
            Family::Diamond { kind: 1, .. } => "diamond_void",
            Family::Diamond { .. } => "diamond_mixed",
            Family::Fanout { .. } => "fanout",
            Family::Dag { .. } => "layered_dag",
            Family::Types { arrays: false, .. } => "nested_structs",
            Family::Types { arrays: true, .. } => "nested_struct_arrays",
            Family::Flat { .. } => "flat_control",
            Family::Decls { kind: 2, .. } => "const_array_doubling",
            Family::Decls { kind: 0, .. } => "override_chain",
            Family::Decls { .. } => "const_chain",
            Family::Wide { .. } => "wide",
            Family::EntriesOnChain { fan: 1, .. } => "entries_on_chain",
            Family::EntriesOnChain { .. } => "entries_on_diamond",
        }
    }

    pub fn depth(&self) -> u32 {
        match self {
            Family::Chain { depth, .. }
            | Family::Diamond { depth, .. }
            | Family::Dag { depth, .. }
            | Family::Decls { depth, .. }
            | Family::GlobalsGraph { depth, .. }
            | Family::EntriesOnChain { depth, .. }
            | Family::Types { depth, .. } => *depth,
            Family::Fanout { .. } => 1,
            Family::Flat { .. } => 0,
            Family::Wide { entries, globals, .. } => (*entries).min(*globals),
            Family::KernelLib { n } => *n,
            Family::Magnitude { bindings, .. } => 8 + *bindings,
            Family::Shapes { n, .. } | Family::Rejected { n, .. } => *n,
        }
    }

    fn with_depth(&self, d: u32) -> Family {
        let mut f = self.clone();
        match &mut f {
            Family::Chain { depth, .. }
            | Family::Diamond { depth, .. }
            | Family::Dag { depth, .. }
            | Family::Decls { depth, .. }
            | Family::GlobalsGraph { depth, .. }
            | Family::EntriesOnChain { depth, .. }
            | Family::Types { depth, .. } => *depth = d,
            Family::KernelLib { n } | Family::Shapes { n, .. } | Family::Rejected { n, .. } => *n = d,
            _ => {}
        }
        f
    }
}

const GLOBALS: &str = "@group(0) @binding(0) var<storage, read_write> acc_buf: array<f32>;\n@group(0) @binding(1) var<uniform> params: vec4<f32>;\n";

fn is_value(kind: u8, level: u32) -> bool {
    match kind {
        0 => true,
        1 => false,
        _ => level % 2 == 0,
    }
}

/// The text of a call to `callee` (value or void) wrapped in the chosen control-flow placement.
fn place_call(out: &mut String, callee: &str, value: bool, placement: u8, n: u32) {
    let call = if value {
        format!("r = r + {callee}(x);")
    } else {
        format!("{callee}();")
    };
    match placement % 6 {
        0 => {
            let _ = writeln!(out, "    {call}");
        }
        1 => {
            let _ = writeln!(out, "    if (x > 0.5) {{ {call} }} else {{ r = r - 1.0; }}");
        }
        2 => {
            let _ = writeln!(
                out,
                "    var it{n} = 0;\n    loop {{ if (it{n} >= 2) {{ break; }} {call} continuing {{ it{n} = it{n} + 1; }} }}"
            );
        }
        3 => {
            let _ = writeln!(
                out,
                "    switch (i32(x)) {{ case 0: {{ {call} }} case 1: {{ r = r * 2.0; }} default: {{ r = r - 1.0; }} }}"
            );
        }
        4 => {
            let _ = writeln!(out, "    {{ {{ {call} }} }}");
        }
        _ => {
            if value {
                let _ = writeln!(out, "    r = r + select({callee}(x), -{callee}(x * 0.5), x > 1.0) * 0.5;");
            } else {
                let _ = writeln!(
                    out,
                    "    var jt{n} = 0;\n    loop {{ if (jt{n} >= 2) {{ break; }} r = r + 1.0; continuing {{ {call} jt{n} = jt{n} + 1; }} }}"
                );
            }
        }
    }
}

fn fn_open(out: &mut String, name: &str, value: bool) {
    fn_open_p(out, name, value, false)
}

fn fn_close(out: &mut String, value: bool) {
    fn_close_p(out, value, false)
}

fn fn_open_p(out: &mut String, name: &str, value: bool, pure_helpers: bool) {
    if value {
        let _ = writeln!(out, "fn {name}(x: f32) -> f32 {{\n    var r = x;");
    } else if pure_helpers {
        let _ = writeln!(out, "fn {name}() {{\n    let x = 0.75;\n    var r = x;");
    } else {
        let _ = writeln!(out, "fn {name}() {{\n    let x = params.x;\n    var r = x;");
    }
}

fn fn_close_p(out: &mut String, value: bool, pure_helpers: bool) {
    if value {
        let _ = writeln!(out, "    return r;\n}}");
    } else if pure_helpers {
        let _ = writeln!(out, "    _ = r;\n}}");
    } else {
        let _ = writeln!(out, "    acc_buf[0] = r;\n}}");
    }
}

fn entry(out: &mut String, stage: u32, name: &str, callee: &str, value: bool) {
    let call = if value {
        format!("let v = {callee}(params.y);")
    } else {
        format!("{callee}();\n    let v = acc_buf[1];")
    };
    match stage % 3 {
        0 => {
            let _ = writeln!(
                out,
                "@compute @workgroup_size(64)\nfn {name}() {{\n    {call}\n    acc_buf[2] = v;\n}}"
            );
        }
        1 => {
            let _ = writeln!(
                out,
                "@fragment\nfn {name}() -> @location(0) vec4<f32> {{\n    {call}\n    return vec4<f32>(v);\n}}"
            );
        }
        _ => {
            let _ = writeln!(
                out,
                "@vertex\nfn {name}() -> @builtin(position) vec4<f32> {{\n    {call}\n    return vec4<f32>(v);\n}}"
            );
        }
    }
}

pub fn source(family: &Family) -> String {
    let mut out = String::new();
    match family {
        Family::Chain { depth, kind, placement, pure_helpers, ptr_args }
        | Family::Diamond { depth, kind, placement, pure_helpers, ptr_args, .. } => {
            let fan = match family {
                Family::Diamond { fan, .. } => *fan,
                _ => 1,
            };
            let pure_helpers = *pure_helpers;
            let ptr_args = *ptr_args;
            out.push_str(GLOBALS);
            let v0 = is_value(*kind, 0);
            fn_open_p(&mut out, "fn0", v0, pure_helpers);
            if !pure_helpers {
                let _ = writeln!(out, "    r = r + acc_buf[3];");
            } else {
                let _ = writeln!(out, "    r = r * 0.5 + 1.0;");
            }
            fn_close_p(&mut out, v0, pure_helpers);
            for level in 1..=*depth {
                let v = is_value(*kind, level);
                let callee_v = is_value(*kind, level - 1);
                fn_open_p(&mut out, &format!("fn{level}"), v, pure_helpers);
                for site in 0..fan {
                    place_call(
                        &mut out,
                        &format!("fn{}", level - 1),
                        callee_v,
                        placement.wrapping_add((level + site) as u8 * (*placement % 2)),
                        site,
                    );
                }
                fn_close_p(&mut out, v, pure_helpers);
            }
            let top_v = is_value(*kind, *depth);
            if ptr_args {
                // give every value-returning helper an extra pointer parameter and thread it
                // through all calls: `fnK(x: f32)` -> `fnK(acc: ptr<function, f32>, x: f32)`
                out = out.replace("(x: f32) -> f32 {", "(acc: ptr<function, f32>, x: f32) -> f32 {\n    *acc = *acc + 1.0;");
                for level in 0..=*depth {
                    out = out.replace(&format!("fn{level}(x)"), &format!("fn{level}(acc, x)"));
                    out = out.replace(&format!("fn{level}(x * 0.5)"), &format!("fn{level}(acc, x * 0.5)"));
                }
                // void helpers have no `acc`: give them a local one
                out = out.replace("let x = params.x;\n    var r = x;", "let x = params.x;\n    var r = x;\n    var acc_local = 0.0;\n    let acc = &acc_local;");
                out = out.replace("let x = 0.75;\n    var r = x;", "let x = 0.75;\n    var r = x;\n    var acc_local = 0.0;\n    let acc = &acc_local;");
                let before = out.len();
                entry(&mut out, 0, "cs_main", &format!("fn{depth}"), top_v);
                entry(&mut out, 1, "fs_main", &format!("fn{depth}"), top_v);
                let tail = out.split_off(before);
                let tail = tail.replace(
                    &format!("let v = fn{depth}(params.y);"),
                    &format!("var acc_local = 0.0;\n    let v = fn{depth}(&acc_local, params.y);"),
                );
                out.push_str(&tail);
            } else {
                entry(&mut out, 0, "cs_main", &format!("fn{depth}"), top_v);
                entry(&mut out, 1, "fs_main", &format!("fn{depth}"), top_v);
            }
        }
        Family::Fanout { sites, callers, kind } => {
            out.push_str(GLOBALS);
            let v = is_value(*kind, 0);
            fn_open(&mut out, "shared_helper", v);
            let _ = writeln!(out, "    r = r + acc_buf[3];");
            fn_close(&mut out, v);
            for c in 0..*callers {
                fn_open(&mut out, &format!("caller{c}"), v);
                for s in 0..*sites {
                    place_call(&mut out, "shared_helper", v, (s % 5) as u8, s);
                }
                fn_close(&mut out, v);
            }
            let _ = writeln!(out, "@compute @workgroup_size(1)\nfn cs_main() {{\n    var t = 0.0;");
            for c in 0..*callers {
                if v {
                    let _ = writeln!(out, "    t = t + caller{c}(params.x);");
                } else {
                    let _ = writeln!(out, "    caller{c}();");
                }
            }
            let _ = writeln!(out, "    acc_buf[4] = t;\n}}");
        }
        Family::Dag { depth, width, callees, seed, entries, pure_helpers } => {
            let mut rng = Rng::new(*seed);
            let pure_helpers = *pure_helpers;
            out.push_str(GLOBALS);
            for w in 0..*width {
                fn_open(&mut out, &format!("d0x{w}"), true);
                if !pure_helpers {
                    let _ = writeln!(out, "    r = r + acc_buf[{}];", w % 8);
                } else {
                    let _ = writeln!(out, "    r = r * 0.5 + {w}.0;");
                }
                fn_close(&mut out, true);
            }
            for level in 1..=*depth {
                for w in 0..*width {
                    let v = rng.chance(700);
                    // value functions are named ..v, void ones ..u, so callers know how to call
                    let name = format!("d{level}x{w}");
                    fn_open_p(&mut out, &name, v, pure_helpers);
                    let n = rng.range(1, (*callees).max(1) as u64) as u32;
                    for site in 0..n {
                        let target = rng.below(*width as u64);
                        // find whether the target is value-returning: level-1 functions recorded below
                        let callee = format!("d{}x{}", level - 1, target);
                        let callee_is_value = out.contains(&format!("fn {callee}(x: f32)"));
                        place_call(&mut out, &callee, callee_is_value, rng.below(6) as u8, site);
                    }
                    fn_close_p(&mut out, v, pure_helpers);
                }
            }
            for e in 0..*entries {
                let target = format!("d{depth}x{}", rng.below(*width as u64));
                let value = out.contains(&format!("fn {target}(x: f32)"));
                entry(&mut out, e, &format!("entry{e}"), &target, value);
            }
        }
        Family::Types { depth, members, globals, arrays } => {
            let _ = writeln!(out, "struct T0 {{\n    leaf: vec4<f32>,\n}}");
            for level in 1..=*depth {
                let _ = writeln!(out, "struct T{level} {{");
                for m in 0..*members {
                    if *arrays && m % 2 == 1 {
                        let _ = writeln!(out, "    m{m}: array<array<T{}, 1>, 1>,", level - 1);
                    } else {
                        let _ = writeln!(out, "    m{m}: T{},", level - 1);
                    }
                }
                let _ = writeln!(out, "}}");
            }
            for g in 0..*globals {
                let _ = writeln!(
                    out,
                    "@group(0) @binding({g}) var<storage, read> tg{g}: T{depth};"
                );
            }
            let _ = writeln!(out, "@compute @workgroup_size(1)\nfn cs_main() {{\n    let p = &tg0;\n}}");
        }
        Family::Decls { depth, kind: 2, .. } => {
            // doubling chain of constant arrays: one Compose per level whose components are the
            // same handle (a DAG in the constant-expression arena); 8 * 2^depth bytes (2 GiB at 28)
            let depth = (*depth).min(28);
            let _ = writeln!(out, "const TK0 = array(1.0, 2.0);");
            for level in 1..=depth {
                let _ = writeln!(out, "const TK{level} = array(TK{}, TK{});", level - 1, level - 1);
            }
            out.push_str(GLOBALS);
            let _ = writeln!(
                out,
                "@compute @workgroup_size(1)\nfn cs_main() {{\n    acc_buf[0] = TK{}[0][0] + params.x;\n}}",
                depth.min(1)
            );
        }
        Family::Decls { depth, fan, kind } => {
            let kw = if *kind == 0 { "override" } else { "const" };
            let _ = writeln!(out, "{kw} dk0: u32 = 1u;");
            for level in 1..=*depth {
                let prev = format!("dk{}", level - 1);
                let expr = match fan {
                    0 | 1 => format!("{prev} + 0u"),
                    2 => format!("{prev} * {prev}"),
                    _ => format!("{prev} * {prev} + {prev} - {prev}"),
                };
                let _ = writeln!(out, "{kw} dk{level}: u32 = {expr};");
            }
            out.push_str(GLOBALS);
            let _ = writeln!(
                out,
                "@compute @workgroup_size(dk{depth})\nfn cs_main() {{\n    acc_buf[0] = f32(dk{depth}) + params.x;\n}}"
            );
            let _ = writeln!(
                out,
                "@compute @workgroup_size(dk{depth}, dk{}, 1)\nfn cs_other() {{\n    acc_buf[1] = f32(dk{});\n}}",
                depth / 2,
                depth / 2
            );
        }
        Family::GlobalsGraph { depth, fan, globals, helpers } => {
            let g = (*globals).max(8);
            for i in 0..g {
                let _ = writeln!(out, "@group({}) @binding({}) var<uniform> gu{i}: vec4<f32>;", i / 64, i % 64);
            }
            for leaf in 0..8u32 {
                let _ = writeln!(out, "fn leaf{leaf}(x: f32) -> f32 {{\n    var r = x;");
                let mut i = leaf;
                while i < g {
                    let _ = writeln!(out, "    r = r + gu{i}.x;");
                    i += 8;
                }
                let _ = writeln!(out, "    return r;\n}}");
            }
            let _ = writeln!(out, "fn all_leaves(x: f32) -> f32 {{\n    var r = x;");
            for leaf in 0..8 {
                let _ = writeln!(out, "    r = r + leaf{leaf}(r);");
            }
            let _ = writeln!(out, "    return r;\n}}");
            for h in 0..*helpers {
                let _ = writeln!(out, "fn fanh{h}(x: f32) -> f32 {{\n    return all_leaves(x) + all_leaves(x * 0.5);\n}}");
            }
            let _ = writeln!(out, "fn dm0(x: f32) -> f32 {{\n    var r = all_leaves(x);");
            for h in 0..*helpers {
                let _ = writeln!(out, "    r = r + fanh{h}(r);");
            }
            let _ = writeln!(out, "    return r;\n}}");
            for level in 1..=*depth {
                let _ = writeln!(out, "fn dm{level}(x: f32) -> f32 {{\n    var r = x;");
                for site in 0..(*fan).max(1) {
                    let _ = writeln!(out, "    r = r + dm{}(r + {site}.0);", level - 1);
                }
                let _ = writeln!(out, "    return r;\n}}");
            }
            let _ = writeln!(
                out,
                "@vertex\nfn vs_main() -> @builtin(position) vec4<f32> {{\n    return vec4<f32>(dm{depth}(1.0));\n}}"
            );
            let _ = writeln!(
                out,
                "@fragment\nfn fs_main() -> @location(0) vec4<f32> {{\n    return vec4<f32>(dm{depth}(2.0));\n}}"
            );
        }
        Family::Rejected { kind, n } => {
            let n = (*n).max(2);
            let first_group = if *kind == 0 { 1 } else { 0 };
            for i in 0..n {
                let _ = writeln!(
                    out,
                    "@group({}) @binding({}) var<storage, read> rj{i}: array<vec4<f32>>;",
                    first_group + i / 128,
                    i % 128
                );
            }
            if *kind == 1 {
                let _ = writeln!(
                    out,
                    "@group({}) @binding({}) var<storage, read> rj_dup: array<vec4<f32>>;",
                    (n - 1) / 128,
                    (n - 1) % 128
                );
            }
            for i in 0..n {
                let _ = writeln!(out, "fn rjf{i}(x: f32) -> f32 {{\n    return x + rj{i}[0].x;\n}}");
            }
            // a deep diamond of helpers on top: the rejection must not walk it path by path
            let depth = n.min(40);
            let _ = writeln!(out, "fn rjd0(x: f32) -> f32 {{\n    return x + rj0[1].y;\n}}");
            for level in 1..=depth {
                let _ = writeln!(
                    out,
                    "fn rjd{level}(x: f32) -> f32 {{\n    return rjd{}(x) + rjd{}(x * 0.5);\n}}",
                    level - 1,
                    level - 1
                );
            }
            let _ = writeln!(out, "@compute @workgroup_size(1)\nfn cs_main() {{\n    var t = rjd{depth}(1.0);");
            for i in 0..n {
                let _ = writeln!(out, "    t = t + rjf{i}(t);");
            }
            match kind % 4 {
                2 => {
                    let _ = writeln!(out, "    let broken = ;\n}}");
                }
                3 => {
                    // accepted by the front end, rejected by validation only (missing return)
                    let _ = writeln!(out, "}}\nfn rj_no_return() -> f32 {{ }}");
                }
                _ => {
                    let _ = writeln!(out, "}}");
                }
            }
        }
        Family::Shapes { shape, n } => {
            let n = (*n).max(1);
            match shape % 12 {
                0 => {
                    let depth = n.min(24);
                    let mut ty = "f32".to_string();
                    for _ in 0..depth {
                        ty = format!("array<{ty}, 2>");
                    }
                    let _ = writeln!(out, "struct Nest {{\n    first: vec4<f32>,\n    cube: {ty},\n}}");
                    let _ = writeln!(out, "@group(0) @binding(0) var<storage, read> nest: Nest;");
                    let _ = writeln!(out, "@compute @workgroup_size(1)\nfn cs_main() {{\n    let a = nest.first.x;\n}}");
                }
                1 => {
                    let len = n.min(4000) as usize;
                    let name = |prefix: &str| format!("{prefix}{}", "LongIdentifierPart_".repeat(len / 19 + 1)).chars().take(len.max(4)).collect::<String>();
                    let (st, fi, gl, fu, en) = (name("St"), name("fi"), name("gl"), name("fu"), name("en"));
                    let _ = writeln!(out, "struct {st} {{\n    {fi}: vec4<f32>,\n    {fi}_b: mat4x4<f32>,\n}}");
                    let _ = writeln!(out, "@group(0) @binding(0) var<uniform> {gl}: {st};");
                    let _ = writeln!(out, "fn {fu}(x: f32) -> f32 {{\n    return x + {gl}.{fi}.x;\n}}");
                    let _ = writeln!(out, "struct V{st} {{\n    @location(0) {fi}: vec4<f32>,\n}}");
                    let _ = writeln!(out, "@vertex\nfn {en}v(v: V{st}) -> @builtin(position) vec4<f32> {{\n    return vec4<f32>({fu}(v.{fi}.x));\n}}");
                    let _ = writeln!(out, "@fragment\nfn {en}f() -> @location(0) vec4<f32> {{\n    return vec4<f32>({fu}(1.0));\n}}");
                    let _ = writeln!(out, "@compute @workgroup_size(1)\nfn {en}c() {{\n    let a = {fu}(2.0);\n}}");
                }
                2 => {
                    let _ = writeln!(out, "struct ManyAttrs {{");
                    for i in 0..n.min(400) {
                        let _ = writeln!(out, "    @location({i}) at{i}: vec4<f32>,");
                    }
                    let _ = writeln!(out, "}}\n@vertex\nfn vs_main(v: ManyAttrs) -> @builtin(position) vec4<f32> {{\n    return v.at0;\n}}");
                }
                3 => {
                    for i in 0..n.min(600) {
                        let _ = writeln!(out, "const MC{i}: f32 = {i}.5;\noverride mo{i}: f32 = {i}.0;");
                    }
                    let _ = writeln!(out, "@compute @workgroup_size(1)\nfn cs_main() {{\n    let a = MC0 + mo0;\n}}");
                }
                4 => {
                    for i in 0..n.min(3000) {
                        let _ = writeln!(out, "// {i} {}", "lorem ipsum dolor sit amet, consectetur adipiscing elit \"quoted\" \\ ".repeat(14));
                    }
                    let _ = writeln!(out, "@group(0) @binding(0) var<uniform> cu: vec4<f32>;\n@fragment\nfn fs_main() -> @location(0) vec4<f32> {{\n    return cu;\n}}");
                }
                5 => {
                    let depth = n.min(60);
                    out.push_str(GLOBALS);
                    let _ = writeln!(out, "fn nest_helper(x: f32) -> f32 {{\n    return x + acc_buf[1];\n}}");
                    let _ = writeln!(out, "fn nested(x: f32) -> f32 {{\n    var r = x;");
                    for level in 0..depth {
                        let _ = writeln!(out, "{}if (r > {level}.0) {{ r = r + nest_helper(r);", "  ".repeat(level as usize + 2));
                    }
                    for level in (0..depth).rev() {
                        let _ = writeln!(out, "{}}} else {{ r = r - nest_helper(r); }}", "  ".repeat(level as usize + 2));
                    }
                    let _ = writeln!(out, "    return r;\n}}");
                    let _ = writeln!(out, "@compute @workgroup_size(1)\nfn cs_main() {{\n    acc_buf[0] = nested(params.x);\n}}");
                }
                7 => {
                    // let-bound values each used twice by the next one: n expressions, 2^n paths
                    let depth = n.min(64);
                    out.push_str(GLOBALS);
                    let _ = writeln!(out, "fn dag_helper(x: f32) -> f32 {{\n    return x * 0.5 + acc_buf[1];\n}}");
                    let _ = writeln!(out, "fn dag(x: f32) -> f32 {{\n    let e0 = dag_helper(x);");
                    for level in 1..=depth {
                        let p = level - 1;
                        match level % 3 {
                            0 => { let _ = writeln!(out, "    let e{level} = e{p} * 0.5 + e{p} * 0.25;"); }
                            1 => { let _ = writeln!(out, "    let e{level} = select(e{p}, -e{p}, e{p} > 1.0);"); }
                            _ => { let _ = writeln!(out, "    let e{level} = min(e{p}, 4.0) + dag_helper(e{p});"); }
                        }
                    }
                    let _ = writeln!(out, "    return e{depth};\n}}");
                    let _ = writeln!(out, "@compute @workgroup_size(1)\nfn cs_main() {{\n    acc_buf[0] = dag(params.x) + dag(params.y);\n}}");
                }
                8 => {
                    // f(g(f(g(...x)))) : call results as call arguments
                    let depth = n.min(48);
                    out.push_str(GLOBALS);
                    let _ = writeln!(out, "fn na(x: f32) -> f32 {{\n    return x + acc_buf[1];\n}}");
                    let _ = writeln!(out, "fn nb(x: f32, y: f32) -> f32 {{\n    return x * y + params.x;\n}}");
                    let mut e = "params.y".to_string();
                    for level in 0..depth {
                        e = if level % 2 == 0 { format!("na({e})") } else { format!("nb({e}, 0.5)") };
                    }
                    let _ = writeln!(out, "@compute @workgroup_size(1)\nfn cs_main() {{\n    acc_buf[0] = {e};\n}}");
                }
                11 => {
                    // Declared but never used: a push constant block, a uniform, a storage buffer
                    // and helper functions from a shared prelude, in front of a diamond n deep.
                    // Whatever falls back to "look again, more carefully" when a name is not found
                    // among the used ones walks the call graph once more - without the memo.
                    let depth = n.min(64);
                    let _ = writeln!(out, "struct PreludePush {{\n    tint: vec4<f32>,\n    frame: u32,\n}}");
                    let _ = writeln!(out, "var<push_constant> prelude_push: PreludePush;");
                    out.push_str(GLOBALS);
                    let _ = writeln!(out, "@group(0) @binding(2) var<uniform> prelude_unused_uniform: vec4<f32>;");
                    let _ = writeln!(out, "@group(0) @binding(3) var<storage, read> prelude_unused_buffer: array<vec4<f32>>;");
                    let _ = writeln!(out, "fn prelude_unused_helper(x: f32) -> f32 {{\n    return x * prelude_unused_uniform.x;\n}}");
                    let _ = writeln!(out, "fn d0(x: f32) -> f32 {{\n    return x + acc_buf[1];\n}}");
                    for level in 1..=depth {
                        let p = level - 1;
                        let _ = writeln!(out, "fn d{level}(x: f32) -> f32 {{\n    var r = d{p}(x);\n    r = r + d{p}(x * 0.5);\n    return r;\n}}");
                    }
                    let _ = writeln!(out, "@compute @workgroup_size(1)\nfn cs_main() {{\n    acc_buf[0] = d{depth}(params.x);\n}}");
                    let _ = writeln!(out, "@fragment\nfn fs_main() -> @location(0) vec4<f32> {{\n    return vec4<f32>(d{depth}(params.y));\n}}");
                }
                10 => {
                    // n bind groups of one to three bindings each: whatever enumerates subsets or
                    // pairs of groups (layout compatibility, visibility merging) meets 2^n or n^2
                    let groups = n.min(64);
                    for g in 0..groups {
                        let _ = writeln!(out, "@group({g}) @binding(0) var<uniform> bg{g}_a: vec4<f32>;");
                        if g % 2 == 0 {
                            let _ = writeln!(out, "@group({g}) @binding(1) var<storage, read_write> bg{g}_b: array<f32>;");
                        }
                        if g % 5 == 0 {
                            let _ = writeln!(out, "@group({g}) @binding(4) var<storage, read> bg{g}_c: array<vec4<f32>>;");
                        }
                    }
                    let _ = writeln!(out, "@compute @workgroup_size(1)\nfn cs_main() {{\n    var t = 0.0;");
                    for g in 0..groups {
                        let _ = writeln!(out, "    t = t + bg{g}_a.x;");
                    }
                    let _ = writeln!(out, "    bg0_b[0] = t;\n}}");
                    let _ = writeln!(out, "@fragment\nfn fs_main() -> @location(0) vec4<f32> {{\n    return bg{}_a;\n}}", groups - 1);
                }
                9 => {
                    // one expression with n terms, each a call
                    out.push_str(GLOBALS);
                    let _ = writeln!(out, "fn term(x: f32) -> f32 {{\n    return x + acc_buf[3];\n}}");
                    let mut e = "params.x".to_string();
                    for t in 0..n.min(400) {
                        let _ = write!(e, " + term({t}.0)");
                    }
                    let _ = writeln!(out, "@fragment\nfn fs_main() -> @location(0) vec4<f32> {{\n    let v = {e};\n    return vec4<f32>(v);\n}}");
                }
                _ => {
                    out.push_str(GLOBALS);
                    let _ = writeln!(out, "fn case_helper(x: f32) -> f32 {{\n    return x * acc_buf[2];\n}}");
                    let _ = writeln!(out, "fn dispatch(k: i32, x: f32) -> f32 {{\n    var r = x;\n    switch (k) {{");
                    for case in 0..n.min(500) {
                        let _ = writeln!(out, "        case {case}: {{ var j = 0; loop {{ if (j >= 2) {{ break; }} r = r + case_helper(r); continuing {{ j = j + 1; }} }} }}");
                    }
                    let _ = writeln!(out, "        default: {{ r = case_helper(r); }}\n    }}\n    return r;\n}}");
                    let _ = writeln!(out, "@compute @workgroup_size(1)\nfn cs_main() {{\n    acc_buf[0] = dispatch(3, params.x);\n}}");
                }
            }
        }
        Family::Magnitude { bindings, seed } => {
            let mut rng = Rng::new(*seed);
            let big = |rng: &mut Rng| -> u64 {
                match rng.below(4) {
                    0 => i32::MAX as u64 - rng.below(1000), // naga wants binding indices to fit in i32
                    1 => 1_000_000_000 + rng.below(1_000_000),
                    2 => 65_536 + rng.below(100_000),
                    _ => rng.below(1 << 31),
                }
            };
            let _ = writeln!(out, "struct Mg {{\n    small: vec4<f32>,\n    table: array<vec4<f32>, 100000000>,\n    grid: array<array<f32, 20000>, 20000>,\n}}");
            let mut used = std::collections::BTreeSet::new();
            for b in 0..(*bindings).max(1) {
                let mut index = big(&mut rng);
                while !used.insert(index) {
                    index = big(&mut rng);
                }
                let _ = writeln!(
                    out,
                    "@group(0) @binding({index}) var<storage, read> mg{b}: {};",
                    if b % 3 == 0 { "Mg" } else { "array<vec4<f32>>" }
                );
            }
            let _ = writeln!(out, "@id(65535) override mg_ov: f32 = 1.0;\nconst MG_BIG: u32 = 4294967295u;");
            // large enough for a per-unit loop to take seconds, small enough for naga's validator
            // (a bit set indexed by location) to stay around a tenth of a second
            let loc = |rng: &mut Rng| 1_200_000_000 + rng.below(100_000_000);
            let _ = writeln!(
                out,
                "struct MgFragOut {{\n    @location(0) color: vec4<f32>,\n    @location({}) extra: vec4<f32>,\n}}",
                loc(&mut rng)
            );
            let _ = writeln!(
                out,
                "struct MgVertIn {{\n    @location(3) near: vec4<f32>,\n    @location({}) far: vec4<f32>,\n}}",
                loc(&mut rng)
            );
            let _ = writeln!(
                out,
                "@vertex\nfn vs_main(v: MgVertIn) -> @builtin(position) vec4<f32> {{\n    return v.near + v.far;\n}}"
            );
            let _ = writeln!(
                out,
                "@fragment\nfn fs_main() -> MgFragOut {{\n    var o: MgFragOut;\n    o.color = vec4<f32>(1.0);\n    o.extra = vec4<f32>(2.0);\n    return o;\n}}"
            );
            let _ = writeln!(
                out,
                "@compute @workgroup_size(1024, 1, 1)\nfn cs_main() {{\n    let a = mg0.small.x * mg_ov + f32(MG_BIG);\n}}"
            );
        }
        Family::KernelLib { n } => {
            for i in 0..*n {
                let _ = writeln!(
                    out,
                    "@group({}) @binding({}) var<storage, read_write> kb{i}: array<f32>;",
                    i / 128,
                    i % 128
                );
            }
            for i in 0..*n {
                let _ = writeln!(out, "fn kh{i}(x: f32) -> f32 {{\n    return x * 2.0 + {i}.0;\n}}");
            }
            let _ = writeln!(out, "fn shared_fan(x: f32) -> f32 {{\n    var t = x;");
            for i in 0..*n {
                let _ = writeln!(out, "    t = t + kh{i}(t);");
            }
            let _ = writeln!(out, "    return t;\n}}");
            for i in 0..*n {
                let _ = writeln!(
                    out,
                    "@compute @workgroup_size(1)\nfn ke{i}() {{\n    kb{i}[0] = shared_fan(1.0);\n}}"
                );
            }
        }
        Family::EntriesOnChain { depth, entries, fan, callers_first } => {
            let depth = (*depth).max(1);
            // level 0 is the top of the chain, level `depth` the leaf
            let name = |level: u32| {
                if *callers_first {
                    format!("h{level:03}")
                } else {
                    format!("h{:03}", depth - level)
                }
            };
            for level in 0..=depth {
                let _ = writeln!(out, "@group(0) @binding({level}) var<storage, read_write> g{level}: array<f32>;");
            }
            for level in (0..=depth).rev() {
                let mut body = format!("var r = x + g{level}[0];");
                if level < depth {
                    for site in 0..(*fan).max(1) {
                        let _ = write!(body, " r = r + {}(r * {}.5);", name(level + 1), site);
                    }
                }
                let _ = writeln!(out, "fn {}(x: f32) -> f32 {{ {body} return r; }}", name(level));
            }
            for e in 0..(*entries).max(1) {
                let target = name((e * 7) % (depth + 1));
                match e % 3 {
                    0 => { let _ = writeln!(out, "@compute @workgroup_size(1) fn e{e:03}() {{ g0[1] = {target}(1.0); }}"); }
                    1 => { let _ = writeln!(out, "@fragment fn e{e:03}() -> @location(0) vec4<f32> {{ return vec4<f32>({target}(2.0)); }}"); }
                    _ => { let _ = writeln!(out, "@vertex fn e{e:03}() -> @builtin(position) vec4<f32> {{ return vec4<f32>({target}(3.0)); }}"); }
                }
            }
        }
        Family::Wide { entries, globals, members, vertex_structs } => {
            let _ = writeln!(out, "struct Wm {{");
            for m in 0..(*members).max(1) {
                let _ = writeln!(out, "    wm{m}: vec4<f32>,");
            }
            let _ = writeln!(out, "}}");
            for g in 0..*globals {
                let _ = writeln!(
                    out,
                    "@group({}) @binding({}) var<storage, read> wg{g}: Wm;",
                    g / 64,
                    g % 64
                );
            }
            let mut loc = 0;
            for v in 0..*vertex_structs {
                let _ = writeln!(out, "struct Wv{v} {{");
                for f in 0..2 {
                    let _ = writeln!(out, "    @location({loc}) wa{f}: vec4<f32>,");
                    loc += 1;
                }
                let _ = writeln!(out, "}}");
            }
            let _ = writeln!(out, "fn touch_all() -> f32 {{\n    var t = 0.0;");
            for g in 0..*globals {
                let _ = writeln!(out, "    t = t + wg{g}.wm0.x;");
            }
            let _ = writeln!(out, "    return t;\n}}");
            for e in 0..*entries {
                match e % 3 {
                    0 => {
                        let params: Vec<String> =
                            (0..*vertex_structs).map(|v| format!("wv{v}: Wv{v}")).collect();
                        let _ = writeln!(
                            out,
                            "@vertex\nfn we{e}({}) -> @builtin(position) vec4<f32> {{\n    return vec4<f32>(touch_all());\n}}",
                            params.join(", ")
                        );
                    }
                    1 => {
                        let _ = writeln!(
                            out,
                            "@fragment\nfn we{e}() -> @location(0) vec4<f32> {{\n    return vec4<f32>(touch_all());\n}}"
                        );
                    }
                    _ => {
                        let _ = writeln!(
                            out,
                            "@compute @workgroup_size(1)\nfn we{e}() {{\n    let t = touch_all();\n}}"
                        );
                    }
                }
            }
        }
        Family::Flat { functions, structs, bindings } => {
            for s in 0..*structs {
                let _ = writeln!(
                    out,
                    "struct Fs{s} {{\n    a: vec4<f32>,\n    b: vec4<f32>,\n    c: mat4x4<f32>,\n}}"
                );
            }
            for b in 0..*bindings {
                let s = if *structs > 0 { format!("Fs{}", b % structs) } else { "vec4<f32>".into() };
                let _ = writeln!(out, "@group(0) @binding({b}) var<storage, read> fb{b}: {s};");
            }
            let g = if *bindings == 0 { 0 } else { 1 };
            let _ = writeln!(out, "@group({g}) @binding(0) var<storage, read_write> acc_buf: array<f32>;\n@group({g}) @binding(1) var<uniform> params: vec4<f32>;");
            for f in 0..*functions {
                fn_open(&mut out, &format!("flat{f}"), true);
                let _ = writeln!(out, "    r = r * 2.0 + acc_buf[{}];", f % 8);
                fn_close(&mut out, true);
            }
            let _ = writeln!(out, "@compute @workgroup_size(1)\nfn cs_main() {{\n    var t = 0.0;");
            for f in 0..*functions {
                let _ = writeln!(out, "    t = t + flat{f}(params.x);");
            }
            let _ = writeln!(out, "    acc_buf[4] = t;\n}}");
        }
    }
    out
}

/// Number of identifier/number tokens (maximal runs of [A-Za-z0-9_.]).
pub fn token_count(src: &str) -> u64 {
    let mut n = 0;
    let mut inside = false;
    for c in src.chars() {
        let word = c.is_ascii_alphanumeric() || c == '_' || c == '.';
        if word && !inside {
            n += 1;
        }
        inside = word;
    }
    n
}

/// Hard CPU-time cap per case (the process is killed) and the threshold above which a finished
/// case counts as a violation. Cases on the unchanged tree need 1-40 ms.
pub const CPU_CASE_CAP_S: u64 = 10;
pub const CPU_CASE_LIMIT_MS: u64 = 2000;
/// "A shader of a few hundred lines ... is processed in well under a second": programs of at most
/// 400 lines get half the limit (the slowest such program on the unchanged tree needs 0.23 s).
pub const CPU_SMALL_CASE_LIMIT_MS: u64 = 1000;
pub const SMALL_CASE_LINES: usize = 400;

pub fn cpu_limit_ms(src: &str) -> u64 {
    if src.lines().count() <= SMALL_CASE_LINES {
        CPU_SMALL_CASE_LIMIT_MS
    } else {
        CPU_CASE_LIMIT_MS
    }
}
/// Address-space cap of a batch process (the unchanged tree peaks at a few hundred MB, most of it
/// the reserved 256 MB stack of the measuring thread).
pub const MEMORY_CAP_BYTES: u64 = 6 << 30;

/// Budget of the second virtual clock (heap allocations inside the call), from the token count.
/// The unchanged tree allocates at most ~300 times per token plus ~10 000; the budget leaves room
/// for a quadratic term and two orders of magnitude at small sizes.
pub fn allocation_budget(tokens: u64) -> u64 {
    4 * tokens * tokens + 400 * tokens + 2_000_000
}

pub fn budget(src: &str) -> u64 {
    let l = token_count(src);
    4 * l * l + 10_000
}

// ---------------------------------------------------------------------------------------------

struct ClockBackend {
    ticks: Cell<u64>,
    budget: u64,
    sites: RefCell<Vec<(&'static str, u64)>>,
}

impl Backend for ClockBackend {
    fn point(&self, site: &'static str) {
        let t = self.ticks.get() + 1;
        self.ticks.set(t);
        {
            let mut sites = self.sites.borrow_mut();
            match sites.iter_mut().find(|(s, _)| std::ptr::eq(*s, site) || *s == site) {
                Some(entry) => entry.1 += 1,
                None => sites.push((site, 1)),
            }
        }
        if t > self.budget {
            std::panic::panic_any(Sentinel::Budget);
        }
    }

    fn spawn(&self, _spec: &SpawnSpec) -> Option<std::io::Result<Arc<dyn ChildIo>>> {
        None
    }
}

#[derive(Debug, Clone, Serialize, Deserialize)]
pub struct Measured {
    pub ticks: u64,
    pub budget: u64,
    pub tokens: u64,
    pub exceeded: bool,
    pub dominant_site: String,
    pub outcome: String,
    pub cpu_ms: u64,
    /// heap allocations made inside the call: a second virtual clock, for code without hooks
    #[serde(default)]
    pub allocations: u64,
}

fn cpu_ms() -> u64 {
    let mut ts = libc::timespec {
        tv_sec: 0,
        tv_nsec: 0,
    };
    unsafe { libc::syscall(libc::SYS_clock_gettime, libc::CLOCK_PROCESS_CPUTIME_ID, &mut ts) };
    ts.tv_sec as u64 * 1000 + ts.tv_nsec as u64 / 1_000_000
}

pub fn options_for(src: &str) -> Opts {
    let plain = Opts::plain();
    match rng::fnv1a(src.as_bytes()) % 4 {
        0 => plain,
        1 => Opts {
            bytemuck_vertex: true,
            bytemuck_host: true,
            serde: true,
            ..plain
        },
        2 => Opts {
            encase_host: true,
            mvt: 1,
            ..plain
        },
        _ => Opts {
            bytemuck_host: true,
            serde: true,
            mvt: 2,
            ..plain
        },
    }
}

pub fn measure(src: &str, validate: bool) -> Measured {
    let b = budget(src);
    let src = src.to_string();
    let src2 = src.clone();
    // Deep recursion in the code under test: run on a big stack.
    let handle = std::thread::Builder::new()
        .stack_size(256 << 20)
        .spawn(move || {
            let backend = Arc::new(ClockBackend {
                ticks: Cell::new(0),
                budget: b,
                sites: RefCell::new(Vec::new()),
            });
            let backend2 = backend.clone();
            verif_hooks::install(Some(backend2 as Arc<dyn Backend>));
            // The derive / representation options come from a fixed menu, chosen by the source
            // text itself (so a replay file needs nothing but the source): cost must not explode
            // under any of them.
            let mut options = options_for(&src2);
            options.validate = validate;
            let allocations = Arc::new(std::sync::atomic::AtomicU64::new(0));
            {
                let allocations = allocations.clone();
                crate::seams::set_alloc_hook(
                    1,
                    Some(Box::new(move || {
                        allocations.fetch_add(1, std::sync::atomic::Ordering::Relaxed);
                    })),
                );
            }
            let t0 = cpu_ms();
            crate::seams::set_alloc_points_active(true);
            let result = std::panic::catch_unwind(std::panic::AssertUnwindSafe(|| {
                corpus::run_job(&src2, None, options)
            }));
            crate::seams::set_alloc_points_active(false);
            let cpu = cpu_ms().saturating_sub(t0);
            crate::seams::set_alloc_hook(0, None);
            let allocations = allocations.load(std::sync::atomic::Ordering::Relaxed);
            verif_hooks::install(None);
            let (exceeded, outcome) = match result {
                Ok(o) => (false, o.class().to_string() + &match &o {
                    Outcome::Err { display, .. } => format!(":{}", &display[..display.len().min(60)]),
                    Outcome::Panic { message } => format!(":{}", &message[..message.len().min(60)]),
                    _ => String::new(),
                }),
                Err(p) => match p.downcast_ref::<Sentinel>() {
                    Some(Sentinel::Budget) => (true, "aborted_at_budget".to_string()),
                    other => (false, format!("harness:{other:?}")),
                },
            };
            let dominant = backend
                .sites
                .borrow()
                .iter()
                .max_by_key(|(_, n)| *n)
                .map(|(s, _)| s.to_string())
                .unwrap_or_default();
            (backend.ticks.get(), exceeded, outcome, dominant, cpu, allocations)
        })
        .expect("spawn measure thread");
    let (ticks, mut exceeded, outcome, mut dominant_site, cpu, allocations) = handle.join().expect("measure thread");
    if !exceeded && allocations > allocation_budget(token_count(&src)) {
        // the call came back, but only after a number of heap allocations no low-degree polynomial
        // in its size explains: code without hooks has a clock too
        exceeded = true;
        dominant_site = "heap_allocations".to_string();
    }
    Measured {
        ticks,
        budget: b,
        tokens: token_count(&src),
        exceeded,
        dominant_site,
        outcome,
        cpu_ms: cpu,
        allocations,
    }
}

// ---------------------------------------------------------------------------------------------
// Workload

pub fn systematic_families() -> Vec<Family> {
    let mut v = Vec::new();
    for kind in 0..3u8 {
        for depth in [1, 2, 4, 8, 16, 24, 32, 48, 64] {
            v.push(Family::Chain { depth, kind, placement: 0, pure_helpers: false, ptr_args: false });
            if depth >= 16 && kind != 1 {
                v.push(Family::Chain { depth, kind, placement: 0, pure_helpers: depth % 32 == 0, ptr_args: true });
            }
            if depth >= 16 {
                v.push(Family::Chain { depth, kind, placement: 0, pure_helpers: true, ptr_args: false });
            }
        }
        for depth in [2, 8, 16, 32, 64] {
            v.push(Family::Diamond { depth, fan: 2, kind, placement: 0, pure_helpers: false, ptr_args: false });
            if depth >= 16 && kind != 1 {
                v.push(Family::Diamond { depth, fan: 2, kind, placement: 0, pure_helpers: false, ptr_args: true });
            }
            if depth >= 16 {
                v.push(Family::Diamond { depth, fan: 2, kind, placement: 0, pure_helpers: true, ptr_args: false });
            }
        }
        v.push(Family::Diamond { depth: 40, fan: 3, kind, placement: 2, pure_helpers: kind == 1, ptr_args: false });
        for sites in [1, 10, 50, 200] {
            v.push(Family::Fanout { sites, callers: 1, kind });
        }
        v.push(Family::Fanout { sites: 20, callers: 10, kind });
    }
    for placement in 1..6u8 {
        v.push(Family::Chain { depth: 40, kind: 2, placement, pure_helpers: placement % 2 == 0, ptr_args: placement == 3 });
        v.push(Family::Diamond { depth: 30, fan: 2, kind: 2, placement, pure_helpers: placement % 2 == 1, ptr_args: placement == 4 });
    }
    for (depth, width, callees) in [(8, 4, 2), (16, 4, 3), (32, 6, 4), (64, 3, 2), (64, 5, 4)] {
        v.push(Family::Dag { depth, width, callees, seed: 11, entries: 3, pure_helpers: false });
        v.push(Family::Dag { depth, width, callees, seed: 12, entries: 2, pure_helpers: true });
    }
    for (depth, members) in [(1, 32), (2, 16), (4, 8), (6, 16), (8, 4), (10, 3), (15, 2), (12, 3), (27, 2), (24, 2), (17, 3), (13, 4), (9, 8), (5, 32), (60, 1)] {
        v.push(Family::Types { depth, members, globals: 1, arrays: false });
    }
    v.push(Family::Types { depth: 6, members: 8, globals: 16, arrays: false });
    v.push(Family::Types { depth: 7, members: 6, globals: 2, arrays: true });
    for depth in [2, 8, 16, 22, 26, 28] {
        v.push(Family::Decls { depth, fan: 2, kind: 2 });
    }
    for kind in 0..2u8 {
        for (depth, fan) in [(4, 2), (16, 2), (32, 2), (48, 3), (64, 2), (64, 1)] {
            v.push(Family::Decls { depth, fan, kind });
        }
    }
    for (entries, globals, members, vertex_structs) in
        [(3, 8, 4, 1), (12, 32, 16, 2), (30, 100, 64, 4), (60, 200, 200, 7), (90, 16, 300, 3)]
    {
        v.push(Family::Wide { entries, globals, members, vertex_structs });
    }
    for callers_first in [true, false] {
        for (depth, entries, fan) in [(8, 6, 1), (32, 40, 1), (64, 160, 1), (64, 40, 2), (48, 90, 2)] {
            v.push(Family::EntriesOnChain { depth, entries, fan, callers_first });
        }
    }
    for n in [8, 75, 150, 300, 400] {
        v.push(Family::KernelLib { n });
    }
    for (bindings, seed) in [(1, 1), (4, 2), (16, 3), (64, 4)] {
        v.push(Family::Magnitude { bindings, seed });
    }
    for kind in 0..4u8 {
        for n in [4, 60, 400] {
            v.push(Family::Rejected { kind, n });
        }
    }
    for (shape, sizes) in [
        (0u8, &[4u32, 12, 24][..]),
        (1, &[64, 1000, 4000]),
        (2, &[16, 100, 400]),
        (3, &[10, 150, 600]),
        (4, &[10, 500, 3000]),
        (5, &[4, 30, 60]),
        (6, &[8, 100, 500]),
        (7, &[4, 24, 64]),
        (8, &[4, 24, 48]),
        (9, &[10, 120, 400]),
        (10, &[3, 24, 64]),
        (11, &[4, 30, 64]),
    ] {
        for n in sizes {
            v.push(Family::Shapes { shape, n: *n });
        }
    }
    for (depth, fan, globals, helpers) in [(4, 2, 16, 4), (16, 3, 64, 24), (48, 4, 256, 96), (64, 2, 400, 150)] {
        v.push(Family::GlobalsGraph { depth, fan, globals, helpers });
    }
    for (functions, structs, bindings) in [(10, 2, 2), (60, 10, 8), (200, 30, 16), (400, 60, 16)] {
        v.push(Family::Flat { functions, structs, bindings });
    }
    v
}

pub fn random_family(rng: &mut Rng) -> Family {
    match rng.below(10) {
        0..=1 => Family::Chain {
            depth: rng.range(1, 64) as u32,
            kind: rng.below(3) as u8,
            placement: rng.below(12) as u8,
            pure_helpers: rng.chance(400),
            ptr_args: rng.chance(250),
        },
        2..=3 => Family::Diamond {
            depth: rng.range(1, 64) as u32,
            fan: rng.range(2, 4) as u32,
            kind: rng.below(3) as u8,
            placement: rng.below(12) as u8,
            pure_helpers: rng.chance(400),
            ptr_args: rng.chance(250),
        },
        4 if rng.chance(300) => Family::KernelLib {
            n: rng.range(1, 400) as u32,
        },
        4 if rng.chance(300) => Family::GlobalsGraph {
            depth: rng.range(1, 64) as u32,
            fan: rng.range(1, 4) as u32,
            globals: rng.range(8, 400) as u32,
            helpers: rng.range(0, 150) as u32,
        },
        4 if rng.chance(300) => {
            let shape = rng.below(12) as u8;
            let max = [24, 4000, 400, 600, 3000, 60, 500, 64, 48, 400, 64, 64][shape as usize];
            Family::Shapes {
                shape,
                n: rng.range(1, max) as u32,
            }
        }
        4 if rng.chance(300) => Family::Rejected {
            kind: rng.below(4) as u8,
            n: rng.range(2, 400) as u32,
        },
        4 if rng.chance(300) => Family::Magnitude {
            bindings: rng.range(1, 64) as u32,
            seed: rng.below(1 << 30),
        },
        4 => Family::Fanout {
            sites: rng.range(1, 200) as u32,
            callers: rng.range(1, 12) as u32,
            kind: rng.below(3) as u8,
        },
        5..=6 => Family::Dag {
            depth: rng.range(1, 64) as u32,
            width: rng.range(1, 6) as u32,
            callees: rng.range(1, 4) as u32,
            seed: rng.below(1 << 30),
            entries: rng.range(1, 9) as u32,
            pure_helpers: rng.chance(400),
        },
        7..=8 => {
            // naga does not enforce WGSL's nesting limit of 15, only that sizes fit in u32:
            // keep the nominal struct size members^depth * 16 below 2^32 bytes
            let depth = rng.range(1, 27) as u32;
            let max_members = match depth {
                1..=5 => 32,
                6 => 16,
                7 => 12,
                8..=9 => 8,
                10 => 6,
                11..=13 => 4,
                14..=17 => 3,
                _ => 2,
            };
            Family::Types {
                depth,
                members: rng.range(1, max_members) as u32,
                globals: rng.range(1, 16) as u32,
                arrays: rng.chance(300),
            }
        }
        9 if rng.bool() => Family::Decls {
            depth: rng.range(1, 64) as u32,
            fan: rng.range(1, 3) as u32,
            kind: rng.below(3) as u8,
        },
        9 if rng.chance(300) => Family::EntriesOnChain {
            depth: rng.range(2, 64) as u32,
            entries: rng.range(1, 160) as u32,
            fan: rng.range(1, 2) as u32,
            callers_first: rng.bool(),
        },
        9 if rng.bool() => Family::Wide {
            entries: rng.range(1, 90) as u32,
            globals: rng.range(1, 200) as u32,
            members: rng.range(1, 300) as u32,
            vertex_structs: rng.range(0, 7) as u32,
        },
        _ => Family::Flat {
            functions: rng.range(1, 300) as u32,
            structs: rng.range(0, 40) as u32,
            bindings: rng.range(0, 16) as u32,
        },
    }
}

#[derive(Debug, Clone, Serialize, Deserialize)]
pub struct CaseResult {
    pub index: u64,
    pub family: Family,
    pub validate: bool,
    pub measured: Measured,
}

/// Child process: run the cases `lo..hi` of the batch under a CPU-time limit and report each on
/// stdout as it goes (`START i` before, one JSON line after), so a SIGXCPU names its case.
pub fn batch_main(args: &[String]) -> i32 {
    let parse = |i: usize| args.get(i).and_then(|s| s.parse::<u64>().ok());
    let (Some(seed), Some(n_random), Some(lo), Some(hi), Some(cpu_limit)) =
        (parse(0), parse(1), parse(2), parse(3), parse(4))
    else {
        eprintln!("usage: c20-batch <seed> <n_random> <lo> <hi> <cpu_seconds>");
        return 2;
    };
    // An output or an intermediate structure that explodes must not take the machine along:
    // allocation failure aborts the process, which the parent reports like a CPU kill.
    unsafe {
        let lim = libc::rlimit {
            rlim_cur: MEMORY_CAP_BYTES,
            rlim_max: MEMORY_CAP_BYTES,
        };
        libc::setrlimit(libc::RLIMIT_AS, &lim);
    }
    let cases = all_cases(seed, n_random);
    let stdout = std::io::stdout();
    for index in lo..hi.min(cases.len() as u64) {
        let (family, validate) = &cases[index as usize];
        {
            let mut out = stdout.lock();
            let _ = writeln!(out, "START {index}");
            let _ = out.flush();
        }
        // CPU-time limit for this case alone: SIGXCPU ends the process, the parent restarts
        // the batch behind the offending case.
        // Only the soft limit moves: a lowered hard limit could never be raised again, and the
        // next case needs a later deadline than this one.
        unsafe {
            let used = cpu_ms() / 1000;
            let mut lim = libc::rlimit {
                rlim_cur: 0,
                rlim_max: 0,
            };
            libc::getrlimit(libc::RLIMIT_CPU, &mut lim);
            lim.rlim_cur = used + cpu_limit + 1;
            if libc::setrlimit(libc::RLIMIT_CPU, &lim) != 0 {
                eprintln!("HARNESS-ERROR setrlimit(RLIMIT_CPU) failed");
                return 2;
            }
        }
        let src = source(family);
        let measured = measure(&src, *validate);
        let line = serde_json::to_string(&CaseResult {
            index,
            family: family.clone(),
            validate: *validate,
            measured,
        })
        .unwrap();
        let mut out = stdout.lock();
        let _ = writeln!(out, "DONE {line}");
        let _ = out.flush();
    }
    0
}

/// `wgsl-sim c20-one <file> <validate>`: measure one source under the per-case CPU cap.
pub fn one_main(args: &[String]) -> i32 {
    let (Some(path), Some(validate)) = (args.first(), args.get(1)) else {
        return 2;
    };
    let Ok(src) = std::fs::read_to_string(path) else {
        return 2;
    };
    unsafe {
        let mut lim = libc::rlimit {
            rlim_cur: 0,
            rlim_max: 0,
        };
        libc::getrlimit(libc::RLIMIT_CPU, &mut lim);
        lim.rlim_cur = CPU_CASE_CAP_S + 1;
        libc::setrlimit(libc::RLIMIT_CPU, &lim);
    }
    let m = measure(&src, validate == "1");
    println!(
        "tokens={} budget={} ticks={} exceeded={} outcome={} cpu_ms={}",
        m.tokens, m.budget, m.ticks, m.exceeded, m.outcome, m.cpu_ms
    );
    0
}

pub fn all_cases(seed: u64, n_random: u64) -> Vec<(Family, bool)> {
    let mut cases = Vec::new();
    for f in systematic_families() {
        cases.push((f.clone(), false));
        cases.push((f, true));
    }
    for i in 0..n_random {
        let mut rng = Rng::new(rng::mix(seed, &[rng::label("C20"), i]));
        let f = random_family(&mut rng);
        cases.push((f, rng.bool()));
    }
    cases
}

/// A batch child whose stdout is drained on a thread from the start, so that all children run in
/// parallel whatever order the parent looks at them in.
struct Draining {
    child: std::process::Child,
    reader: std::thread::JoinHandle<Vec<u8>>,
}

struct Finished {
    status: std::process::ExitStatus,
    stdout: Vec<u8>,
}

impl Draining {
    fn new(mut child: std::process::Child) -> Self {
        let stdout = child.stdout.take();
        let reader = std::thread::spawn(move || {
            let mut bytes = Vec::new();
            if let Some(mut s) = stdout {
                use std::io::Read as _;
                let _ = s.read_to_end(&mut bytes);
            }
            bytes
        });
        Draining { child, reader }
    }

    fn finish(mut self) -> std::io::Result<Finished> {
        let stdout = self.reader.join().unwrap_or_default();
        let status = self.child.wait()?;
        Ok(Finished { status, stdout })
    }
}

struct BatchOutcome {
    results: Vec<CaseResult>,
    /// (case index, description) for children that were killed by the CPU limit
    backstop: Vec<(u64, String)>,
}

fn run_batches(seed: u64, n_random: u64, total: u64) -> Result<BatchOutcome, String> {
    let workers = crate::workers() as u64;
    let per = total.div_ceil(workers).max(1);
    let exe = std::env::current_exe().map_err(|e| e.to_string())?;
    let cpu_limit: u64 = std::env::var("VERIF_C20_CPU_LIMIT")
        .ok()
        .and_then(|s| s.parse().ok())
        .unwrap_or(CPU_CASE_CAP_S);
    let mut children = Vec::new();
    let mut lo = 0;
    while lo < total {
        let hi = (lo + per).min(total);
        let child = std::process::Command::new(&exe)
            .args([
                "c20-batch".to_string(),
                seed.to_string(),
                n_random.to_string(),
                lo.to_string(),
                hi.to_string(),
                cpu_limit.to_string(),
            ])
            .stdout(std::process::Stdio::piped())
            .stderr(std::process::Stdio::null())
            .spawn()
            .map_err(|e| format!("spawn batch: {e}"))?;
        children.push((lo, hi, Draining::new(child)));
        lo = hi;
    }
    let mut outcome = BatchOutcome {
        results: Vec::new(),
        backstop: Vec::new(),
    };
    let mut queue: std::collections::VecDeque<(u64, u64, Draining)> = children.into();
    while let Some((lo, hi, child)) = queue.pop_front() {
        let out = child.finish().map_err(|e| format!("wait batch: {e}"))?;
        let text = String::from_utf8_lossy(&out.stdout);
        let mut started: Option<u64> = None;
        let mut done = HashSet::new();
        for line in text.lines() {
            if let Some(rest) = line.strip_prefix("START ") {
                started = rest.trim().parse().ok();
            } else if let Some(rest) = line.strip_prefix("DONE ") {
                let r: CaseResult = serde_json::from_str(rest).map_err(|e| format!("batch line: {e}"))?;
                done.insert(r.index);
                outcome.results.push(r);
            }
        }
        use std::os::unix::process::ExitStatusExt;
        if !out.status.success() {
            let sig = out.status.signal();
            let cpu_kill = sig == Some(libc::SIGXCPU)
                || sig == Some(libc::SIGKILL)
                || sig == Some(libc::SIGABRT)
                || sig == Some(libc::SIGSEGV);
            match (cpu_kill, started) {
                (true, Some(i)) if !done.contains(&i) => {
                    outcome.backstop.push((
                        i,
                        if sig == Some(libc::SIGABRT) || sig == Some(libc::SIGSEGV) {
                            format!("case {i} exhausted the {} GiB address-space cap or the stack (process ended by signal {sig:?})", MEMORY_CAP_BYTES >> 30)
                        } else {
                            format!("case {i} used more than {cpu_limit} s of CPU time (process killed by signal {sig:?})")
                        },
                    ));
                    if i + 1 < hi {
                        let child = std::process::Command::new(&exe)
                            .args([
                                "c20-batch".to_string(),
                                seed.to_string(),
                                n_random.to_string(),
                                (i + 1).to_string(),
                                hi.to_string(),
                                cpu_limit.to_string(),
                            ])
                            .stdout(std::process::Stdio::piped())
                            .stderr(std::process::Stdio::null())
                            .spawn()
                            .map_err(|e| format!("respawn batch: {e}"))?;
                        queue.push_back((i + 1, hi, Draining::new(child)));
                    }
                }
                _ => {
                    return Err(format!(
                        "batch {lo}..{hi} ended with {:?} (last started case {started:?})",
                        out.status
                    ))
                }
            }
        }
    }
    outcome.results.sort_by_key(|r| r.index);
    Ok(outcome)
}

fn failure_class(m: &Measured) -> String {
    // update_stages and update_stages_blocks call each other: one recursion, one class
    let site = if m.dominant_site.starts_with("update_stages") {
        "update_stages"
    } else {
        m.dominant_site.as_str()
    };
    format!("budget_exceeded:{site}")
}

/// Smallest depth of the same family that still exceeds its budget.
fn minimise(family: &Family, validate: bool) -> (Family, Measured) {
    let mut best = family.clone();
    let mut best_m = measure(&source(&best), validate);
    let mut lo = 1;
    let mut hi = family.depth();
    while lo < hi {
        let mid = (lo + hi) / 2;
        let cand = family.with_depth(mid);
        let m = measure(&source(&cand), validate);
        if m.exceeded {
            hi = mid;
            best = cand;
            best_m = m;
        } else {
            lo = mid + 1;
        }
    }
    (best, best_m)
}

pub fn main(tier: Tier) -> i32 {
    let start = std::time::Instant::now();
    let seed = crate::verif_seed();
    println!("C20 tier={} VERIF_SEED={seed} workers={}", tier.name(), crate::workers());
    let known = match known::Known::load() {
        Ok(k) => k,
        Err(e) => {
            eprintln!("HARNESS-ERROR {e}");
            return 2;
        }
    };
    let n_random: u64 = std::env::var("VERIF_C20_RUNS")
        .ok()
        .and_then(|s| s.parse().ok())
        .unwrap_or(match tier {
            Tier::Quick => 300,
            Tier::Thorough => 300_000,
        });
    let cases = all_cases(seed, n_random);
    let total = cases.len() as u64;
    let outcome = match run_batches(seed, n_random, total) {
        Ok(o) => o,
        Err(e) => {
            eprintln!("HARNESS-ERROR {e}");
            return 2;
        }
    };

    // determinism: re-measure a slice in this process, tick counts must agree exactly
    let mut det_checked = 0;
    for r in outcome.results.iter().step_by((outcome.results.len() / 24).max(1)) {
        let again = measure(&source(&r.family), r.validate);
        det_checked += 1;
        if again.ticks != r.measured.ticks || again.exceeded != r.measured.exceeded {
            eprintln!(
                "HARNESS-ERROR determinism self-check: case {} gave {} then {} ticks",
                r.index, r.measured.ticks, again.ticks
            );
            return 2;
        }
    }

    let mut lines = Vec::new();
    let mut violations = 0;
    let mut known_hits = 0;
    let mut seen = HashSet::new();
    let mut harness_errors = Vec::new();
    let mut slow: Vec<(u64, String)> = Vec::new();
    for r in &outcome.results {
        if r.measured.outcome.starts_with("harness:") {
            harness_errors.push(format!("case {}: {}", r.index, r.measured.outcome));
        }
        let limit = cpu_limit_ms(&source(&r.family));
        if !r.measured.exceeded && r.measured.cpu_ms > limit {
            slow.push((r.index, format!(
                "case {} finished but used {} ms of CPU time (limit {} ms for a program of its size) while passing only {} hook ticks",
                r.index, r.measured.cpu_ms, limit, r.measured.ticks
            )));
        }
        if !r.measured.exceeded {
            continue;
        }
        let class = failure_class(&r.measured);
        let trigger = r.family.name().to_string();
        if !seen.insert((class.clone(), trigger.clone())) {
            continue;
        }
        if let Some(k) = known.lookup("C20", &class, &trigger) {
            known_hits += 1;
            lines.push(format!("KNOWN-FINDING: property=C20 {class} [{trigger}] {}", k.what));
            continue;
        }
        let (min, m) = minimise(&r.family, r.validate);
        let src = source(&min);
        // the smallest failing member of the family may fail on the other clock (fewer ticks,
        // still too many allocations): the replay file records what IT does
        let class = failure_class(&m);
        let doc = json!({
            "property": "C20", "seed": seed, "run": r.index, "failure_class": class, "trigger": trigger,
            "family": min, "validate": r.validate, "source": src,
            "budget_ticks": m.budget, "tokens": m.tokens, "ticks_when_aborted": m.ticks,
            "heap_allocations": m.allocations, "budget_heap_allocations": allocation_budget(m.tokens),
            "dominant_site": m.dominant_site,
            "minimised_from": {"family": r.family, "depth": r.family.depth()},
        });
        let path = match evidence::write_replay("C20", &format!("{seed}-{}", r.index), &doc) {
            Ok(p) => p,
            Err(e) => {
                eprintln!("HARNESS-ERROR {e}");
                return 2;
            }
        };
        let exe = std::env::current_exe().unwrap();
        let out = std::process::Command::new(exe).arg("replay").arg(&path).output();
        match out {
            Ok(o) if o.status.code() == Some(1)
                && String::from_utf8_lossy(&o.stdout).contains("REPLAY-EXACT") => {}
            other => {
                eprintln!("HARNESS-ERROR replay of {path:?} did not reproduce exactly: {other:?}");
                return 2;
            }
        }
        violations += 1;
        if m.dominant_site == "heap_allocations" {
            lines.push(format!(
                "C20 violation: {class} [{trigger}] depth {} ({} tokens): {} heap allocations inside the call (budget 4*L^2+400*L+2000000 = {})",
                min.depth(), m.tokens, m.allocations, allocation_budget(m.tokens)
            ));
        } else {
            lines.push(format!(
                "C20 violation: {class} [{trigger}] depth {} ({} tokens): more than {} ticks (budget 4*L^2+10000), dominant site {}",
                min.depth(), m.tokens, m.budget, m.dominant_site
            ));
        }
        lines.push(format!("VIOLATION property=C20 replay={}", path.display()));
    }
    let mut cpu_seen = HashSet::new();
    for (index, what) in outcome.backstop.iter().chain(slow.iter()) {
        let (family, validate) = &cases[*index as usize];
        let class = "cpu_backstop".to_string();
        if !cpu_seen.insert(family.name()) {
            continue;
        }
        let trigger = family.name().to_string();
        if let Some(k) = known.lookup("C20", &class, &trigger) {
            known_hits += 1;
            lines.push(format!("KNOWN-FINDING: property=C20 {class} [{trigger}] {}", k.what));
            continue;
        }
        let doc = json!({
            "property": "C20", "seed": seed, "run": index, "failure_class": class, "trigger": trigger,
            "family": family, "validate": validate, "source": source(family), "detail": what,
        });
        match evidence::write_replay("C20", &format!("{seed}-{index}-cpu"), &doc) {
            Ok(path) => {
                violations += 1;
                lines.push(format!("C20 violation: {what}"));
                lines.push(format!("VIOLATION property=C20 replay={}", path.display()));
            }
            Err(e) => {
                eprintln!("HARNESS-ERROR {e}");
                return 2;
            }
        }
    }
    if !harness_errors.is_empty() {
        eprintln!("HARNESS-ERROR {}", harness_errors.join("; "));
        return 2;
    }

    // evidence
    let wall = start.elapsed().as_secs_f64();
    let mut shapes = HashSet::new();
    let mut by_family: BTreeMap<String, (u64, u64, u64, f64, u64)> = BTreeMap::new(); // n, max ticks, max depth, max ticks/budget, max cpu
    let mut alloc_by_family: BTreeMap<String, (u64, f64, f64)> = BTreeMap::new(); // max allocations, max per token, max / allocation budget
    let mut outcomes: BTreeMap<String, u64> = BTreeMap::new();
    let mut total_ticks = 0u64;
    let mut growth: BTreeMap<String, Vec<(u32, u64, u64)>> = BTreeMap::new();
    for r in &outcome.results {
        if r.family.depth() >= 8 {
            shapes.insert(serde_json::to_string(&r.family).unwrap());
        }
        total_ticks += r.measured.ticks;
        let e = by_family.entry(r.family.name().to_string()).or_insert((0, 0, 0, 0.0, 0));
        e.0 += 1;
        e.1 = e.1.max(r.measured.ticks);
        e.2 = e.2.max(r.family.depth() as u64);
        e.3 = e.3.max(r.measured.ticks as f64 / r.measured.budget as f64);
        e.4 = e.4.max(r.measured.cpu_ms);
        let a = alloc_by_family.entry(r.family.name().to_string()).or_insert((0, 0.0, 0.0));
        a.0 = a.0.max(r.measured.allocations);
        a.1 = a.1.max(r.measured.allocations as f64 / r.measured.tokens.max(1) as f64);
        a.2 = a.2.max(r.measured.allocations as f64 / allocation_budget(r.measured.tokens) as f64);
        let key: String = r.measured.outcome.split(':').next().unwrap_or("").to_string();
        *outcomes.entry(key).or_default() += 1;
        if (r.index as usize) < systematic_families().len() * 2 && !r.validate {
            growth
                .entry(r.family.name().to_string())
                .or_default()
                .push((r.family.depth(), r.measured.tokens, r.measured.ticks));
        }
    }
    let fam_json: BTreeMap<String, serde_json::Value> = by_family
        .iter()
        .map(|(k, v)| {
            (
                k.clone(),
                json!({"cases": v.0, "max_ticks": v.1, "max_depth": v.2, "max_ticks_over_budget": (v.3 * 10000.0).round() / 10000.0, "max_cpu_ms": v.4,
                    "max_allocations": alloc_by_family[k].0,
                    "max_allocations_per_token": (alloc_by_family[k].1 * 10.0).round() / 10.0,
                    "max_allocations_over_budget": (alloc_by_family[k].2 * 10000.0).round() / 10000.0}),
            )
        })
        .collect();
    let samples: Vec<serde_json::Value> = outcome
        .results
        .iter()
        .filter(|r| r.family.depth() >= 8)
        .step_by((outcome.results.len() / 6).max(1))
        .take(6)
        .map(|r| json!({"case": r.index, "family": r.family, "validate": r.validate, "tokens": r.measured.tokens, "ticks": r.measured.ticks, "budget": r.measured.budget, "outcome": r.measured.outcome, "cpu_ms": r.measured.cpu_ms}))
        .collect();
    let coverage = json!({
        "evaluations": outcome.results.len(),
        "distinct_nontrivial": shapes.len(),
        "rule": "one evaluation = one call of create_shader_module_embedded on a generated program (call-graph families: value/void/mixed chains, diamonds, fan-out, layered DAGs with calls in if/loop/continuing/switch/nested blocks/expressions; type-graph families: nested structs, arrays of arrays of structs, shared deep types; flat size controls; declaration chains, wide and kernel-library programs, chains and diamonds under many entry points with a global per level, expression shapes, many bind groups, huge literals, rejected programs at size), with and without validation, under one of four option sets chosen by the source, under two virtual clocks: hook ticks (budget 4*L^2+10000) and heap allocations (budget 4*L^2+400*L+2000000), plus a CPU-time line per case; distinct_nontrivial = distinct family parameter sets with depth >= 8",
        "samples": samples,
        "exhaustive": false,
        "systematic_cases": systematic_families().len() * 2,
        "random_cases": n_random,
        "runs_per_hour": evidence::per_hour(outcome.results.len() as u64, wall),
        "simulated_time_ticks": total_ticks,
        "fault_kinds": "none (no fault injection applies to this property; see DESIGN §5)",
        "per_family": fam_json,
        "outcomes": outcomes,
        "growth_systematic_depth_tokens_ticks": growth,
        "cpu_backstop_kills": outcome.backstop.len(),
        "determinism_pairs_checked": det_checked,
        "known_findings_hit": known_hits,
        "components": {
            "real": ["wgsl_to_wgpu::create_shader_module_embedded incl. naga parse/validate and all generators"],
            "stub": ["time: hook ticks stand in for wall-clock; un-hooked code is covered only by the CPU-time limit on each batch process"],
        },
    });
    if let Err(e) = evidence::write(
        "C20",
        tier,
        seed,
        "exploration",
        coverage,
        &[
            "hook sites (verif_point!) are placed at the entry of every recursive or looping function of the generator; work in code without a hook is visible only to the CPU-time backstop",
            "budget 4*L^2+10000 ticks: any implementation that visits each function at most once per entry point and each type once stays at least 8x below it",
        ],
        wall,
        violations,
    ) {
        eprintln!("HARNESS-ERROR {e}");
        return 2;
    }
    for l in &lines {
        println!("{l}");
    }
    println!(
        "C20 {}: {} programs, {} deep shapes, max ticks/budget {:.4}, {} violations, {} known, {:.1}s",
        tier.name(),
        outcome.results.len(),
        shapes.len(),
        by_family.values().map(|v| v.3).fold(0.0, f64::max),
        violations,
        known_hits,
        wall
    );
    if violations > 0 {
        1
    } else {
        0
    }
}

pub fn replay(path: &str, doc: &serde_json::Value) -> i32 {
    let Some(src) = doc["source"].as_str() else {
        eprintln!("HARNESS-ERROR replay file has no source");
        return 2;
    };
    let validate = doc["validate"].as_bool().unwrap_or(false);
    if doc["failure_class"].as_str() == Some("cpu_backstop") {
        // Measure in a child under the same CPU cap so that a runaway cannot take this process along.
        let exe = std::env::current_exe().unwrap();
        let tmp = std::env::temp_dir().join(format!("wgsl-sim-c20-replay-{}.wgsl", std::process::id()));
        let _ = std::fs::write(&tmp, src);
        let out = std::process::Command::new(exe)
            .args(["c20-one", &tmp.to_string_lossy(), if validate { "1" } else { "0" }])
            .output();
        let _ = std::fs::remove_file(&tmp);
        use std::os::unix::process::ExitStatusExt;
        return match out {
            Ok(o) if o.status.signal().is_some() => {
                println!("killed by signal {:?} after more than {CPU_CASE_CAP_S} s of CPU time", o.status.signal());
                println!("REPLAY-EXACT class=cpu_backstop");
                println!("VIOLATION property=C20 replay={path}");
                1
            }
            Ok(o) => {
                let text = String::from_utf8_lossy(&o.stdout);
                print!("{text}");
                let cpu: u64 = text.split("cpu_ms=").nth(1).and_then(|t| t.trim().split_whitespace().next().map(|x| x.to_string())).and_then(|x| x.parse().ok()).unwrap_or(0);
                if cpu > cpu_limit_ms(src) {
                    println!("REPLAY-EXACT class=cpu_backstop");
                    println!("VIOLATION property=C20 replay={path}");
                    1
                } else {
                    println!("replay {path}: within the CPU limit on this tree");
                    0
                }
            }
            Err(e) => {
                eprintln!("HARNESS-ERROR {e}");
                2
            }
        };
    }
    let m = measure(src, validate);
    println!(
        "tokens={} budget={} ticks={} allocations={} exceeded={} dominant_site={} outcome={} cpu_ms={}",
        m.tokens, m.budget, m.ticks, m.allocations, m.exceeded, m.dominant_site, m.outcome, m.cpu_ms
    );
    if m.exceeded {
        let class = failure_class(&m);
        if Some(class.as_str()) == doc["failure_class"].as_str() {
            println!("REPLAY-EXACT class={class}");
        } else {
            println!("REPLAY-DIFFERS class={class}");
        }
        println!("VIOLATION property=C20 replay={path}");
        1
    } else {
        println!("replay {path}: within budget on this tree");
        0
    }
}

pub fn selftest() -> i32 {
    let seed = crate::verif_seed();
    let cases = all_cases(seed, 200);
    let mut diff = 0;
    for (f, v) in cases.iter() {
        let s = source(f);
        let a = measure(&s, *v);
        let b = measure(&s, *v);
        if a.ticks != b.ticks || a.exceeded != b.exceeded {
            diff += 1;
        }
    }
    println!("C20 selftest: {} programs x 2: {diff} differing tick counts", cases.len());
    if diff == 0 {
        0
    } else {
        2
    }
}
