//! Seams the code under test already has: OS entropy and the wall clock.
//!
//! std is linked statically into this executable, so its references to `getrandom` and
//! `clock_gettime` resolve to the definitions below. Every `RandomState` in the process is
//! therefore keyed from the simulator's PRNG (per simulated thread), and `SystemTime::now()`
//! follows the skew chosen by the run's plan.

use crate::rng::Rng;
use std::cell::RefCell;
use std::sync::atomic::{AtomicI64, AtomicU64, Ordering};

thread_local! {
    static ENTROPY: RefCell<Option<Rng>> = const { RefCell::new(None) };
}

pub static ENTROPY_REQUESTS_SIM: AtomicU64 = AtomicU64::new(0);
pub static ENTROPY_REQUESTS_REAL: AtomicU64 = AtomicU64::new(0);
pub static REALTIME_READS: AtomicU64 = AtomicU64::new(0);
static CLOCK_SKEW_S: AtomicI64 = AtomicI64::new(0);
static CLOCK_JUMP_S: AtomicI64 = AtomicI64::new(0);
static CLOCK_JUMP_AFTER: AtomicU64 = AtomicU64::new(u64::MAX);

/// Give the calling thread its own entropy stream (or remove it).
pub fn set_thread_entropy(seed: Option<u64>) {
    ENTROPY.with(|e| *e.borrow_mut() = seed.map(Rng::new));
}

/// Skew applied to CLOCK_REALTIME for the whole process, plus one jump after `after` reads.
pub fn set_clock(skew_s: i64, jump_s: i64, after_reads: u64) {
    CLOCK_SKEW_S.store(skew_s, Ordering::SeqCst);
    CLOCK_JUMP_S.store(jump_s, Ordering::SeqCst);
    CLOCK_JUMP_AFTER.store(after_reads, Ordering::SeqCst);
}

#[no_mangle]
pub unsafe extern "C" fn getrandom(buf: *mut u8, len: usize, flags: u32) -> isize {
    let served = ENTROPY
        .try_with(|e| {
            if let Ok(mut guard) = e.try_borrow_mut() {
                if let Some(rng) = guard.as_mut() {
                    let slice = std::slice::from_raw_parts_mut(buf, len);
                    rng.fill(slice);
                    return true;
                }
            }
            false
        })
        .unwrap_or(false);
    if served {
        ENTROPY_REQUESTS_SIM.fetch_add(1, Ordering::Relaxed);
        return len as isize;
    }
    ENTROPY_REQUESTS_REAL.fetch_add(1, Ordering::Relaxed);
    libc::syscall(libc::SYS_getrandom, buf, len, flags) as isize
}

#[no_mangle]
pub unsafe extern "C" fn clock_gettime(clk: libc::clockid_t, ts: *mut libc::timespec) -> libc::c_int {
    let r = libc::syscall(libc::SYS_clock_gettime, clk, ts) as libc::c_int;
    if r == 0 && clk == libc::CLOCK_REALTIME && !ts.is_null() {
        let n = REALTIME_READS.fetch_add(1, Ordering::Relaxed);
        let mut skew = CLOCK_SKEW_S.load(Ordering::Relaxed);
        if n >= CLOCK_JUMP_AFTER.load(Ordering::Relaxed) {
            skew += CLOCK_JUMP_S.load(Ordering::Relaxed);
        }
        (*ts).tv_sec += skew as libc::time_t;
    }
    r
}
