//! Seams the code under test already has: OS entropy and the wall clock.
//!
//! std is linked statically into this executable, so its references to `getrandom` and
//! `clock_gettime` resolve to the definitions below. Every `RandomState` in the process is
//! therefore keyed from the simulator's PRNG (per simulated thread), and `SystemTime::now()`
//! follows the skew chosen by the run's plan.

use crate::rng::Rng;
use std::cell::{Cell, RefCell};
use std::sync::atomic::{AtomicI64, AtomicU64, AtomicUsize, Ordering};

thread_local! {
    static ENTROPY: RefCell<Option<Rng>> = const { RefCell::new(None) };
}

thread_local! {
    /// Installed on simulated threads: a sleep becomes a scheduling point plus virtual time.
    static SLEEP_HOOK: RefCell<Option<Box<dyn Fn(u64)>>> = const { RefCell::new(None) };
    /// Nanoseconds this thread has "slept" virtually; added to its monotonic clock readings.
    static VIRTUAL_SLEPT_NS: Cell<u64> = const { Cell::new(0) };
    /// Set while the harness itself waits on this thread: its timed waits need the real clock.
    static REAL_CLOCK_ONLY: Cell<bool> = const { Cell::new(false) };
}

/// While a value of this type lives, the calling thread reads the real monotonic clock.
pub struct RealClock(bool);

impl RealClock {
    pub fn new() -> Self {
        RealClock(REAL_CLOCK_ONLY.try_with(|c| c.replace(true)).unwrap_or(false))
    }
}

impl Drop for RealClock {
    fn drop(&mut self) {
        let _ = REAL_CLOCK_ONLY.try_with(|c| c.set(self.0));
    }
}

/// Let virtual time pass on the calling thread without sleeping (a slow machine: every
/// scheduling point costs this much).
pub fn advance_thread_clock(ns: u64) {
    if ns > 0 {
        let _ = VIRTUAL_SLEPT_NS.try_with(|v| v.set(v.get().saturating_add(ns)));
    }
}

pub static VIRTUAL_SLEEPS: AtomicU64 = AtomicU64::new(0);
/// Number of CPUs reported to the process through sched_getaffinity (0 = the real answer).
static SIM_CPUS: AtomicUsize = AtomicUsize::new(0);

/// Sleeps of the calling thread no longer block: `hook(ns)` is called instead and the thread's
/// monotonic clock jumps ahead by the requested time.
pub fn set_sleep_hook(hook: Option<Box<dyn Fn(u64)>>) {
    SLEEP_HOOK.with(|h| *h.borrow_mut() = hook);
    VIRTUAL_SLEPT_NS.with(|v| v.set(0));
}

pub fn set_cpu_count(n: usize) {
    SIM_CPUS.store(n, Ordering::SeqCst);
}

fn virtual_sleep(ns: u64) -> bool {
    let hooked = SLEEP_HOOK
        .try_with(|h| {
            if let Ok(guard) = h.try_borrow() {
                if let Some(hook) = guard.as_ref() {
                    hook(ns);
                    return true;
                }
            }
            false
        })
        .unwrap_or(false);
    if hooked {
        VIRTUAL_SLEEPS.fetch_add(1, Ordering::Relaxed);
        let _ = VIRTUAL_SLEPT_NS.try_with(|v| v.set(v.get().saturating_add(ns)));
    }
    hooked
}

pub static ENTROPY_REQUESTS_SIM: AtomicU64 = AtomicU64::new(0);
pub static ENTROPY_REQUESTS_REAL: AtomicU64 = AtomicU64::new(0);
pub static REALTIME_READS: AtomicU64 = AtomicU64::new(0);
static CLOCK_SKEW_S: AtomicI64 = AtomicI64::new(0);
static CLOCK_JUMP_S: AtomicI64 = AtomicI64::new(0);
static CLOCK_JUMP_AFTER: AtomicU64 = AtomicU64::new(u64::MAX);

/// Give the calling thread its own entropy stream (or remove it).
pub fn set_thread_entropy(seed: Option<u64>) {
    ENTROPY.with(|e| *e.borrow_mut() = seed.map(Rng::new));
}

/// Skew applied to CLOCK_REALTIME for the whole process, plus one jump after `after` reads.
pub fn set_clock(skew_s: i64, jump_s: i64, after_reads: u64) {
    CLOCK_SKEW_S.store(skew_s, Ordering::SeqCst);
    CLOCK_JUMP_S.store(jump_s, Ordering::SeqCst);
    CLOCK_JUMP_AFTER.store(after_reads, Ordering::SeqCst);
}

#[no_mangle]
pub unsafe extern "C" fn getrandom(buf: *mut u8, len: usize, flags: u32) -> isize {
    let served = ENTROPY
        .try_with(|e| {
            if let Ok(mut guard) = e.try_borrow_mut() {
                if let Some(rng) = guard.as_mut() {
                    let slice = std::slice::from_raw_parts_mut(buf, len);
                    rng.fill(slice);
                    return true;
                }
            }
            false
        })
        .unwrap_or(false);
    if served {
        ENTROPY_REQUESTS_SIM.fetch_add(1, Ordering::Relaxed);
        return len as isize;
    }
    ENTROPY_REQUESTS_REAL.fetch_add(1, Ordering::Relaxed);
    libc::syscall(libc::SYS_getrandom, buf, len, flags) as isize
}

#[no_mangle]
pub unsafe extern "C" fn clock_gettime(clk: libc::clockid_t, ts: *mut libc::timespec) -> libc::c_int {
    let r = libc::syscall(libc::SYS_clock_gettime, clk, ts) as libc::c_int;
    if r == 0
        && !ts.is_null()
        && matches!(
            clk,
            libc::CLOCK_MONOTONIC | libc::CLOCK_MONOTONIC_RAW | libc::CLOCK_MONOTONIC_COARSE | libc::CLOCK_BOOTTIME
        )
    {
        let slept = if REAL_CLOCK_ONLY.try_with(|c| c.get()).unwrap_or(true) {
            0
        } else {
            VIRTUAL_SLEPT_NS.try_with(|v| v.get()).unwrap_or(0)
        };
        if slept > 0 {
            let total = (*ts).tv_nsec as u64 + slept % 1_000_000_000;
            (*ts).tv_sec += (slept / 1_000_000_000) as libc::time_t + (total / 1_000_000_000) as libc::time_t;
            (*ts).tv_nsec = (total % 1_000_000_000) as _;
        }
    }
    if r == 0 && clk == libc::CLOCK_REALTIME && !ts.is_null() {
        let n = REALTIME_READS.fetch_add(1, Ordering::Relaxed);
        let mut skew = CLOCK_SKEW_S.load(Ordering::Relaxed);
        if n >= CLOCK_JUMP_AFTER.load(Ordering::Relaxed) {
            skew += CLOCK_JUMP_S.load(Ordering::Relaxed);
        }
        (*ts).tv_sec += skew as libc::time_t;
    }
    r
}

// Other ways to read the wall clock follow the same skew.

#[no_mangle]
pub unsafe extern "C" fn time(tloc: *mut libc::time_t) -> libc::time_t {
    let mut ts = libc::timespec { tv_sec: 0, tv_nsec: 0 };
    clock_gettime(libc::CLOCK_REALTIME, &mut ts);
    if !tloc.is_null() {
        *tloc = ts.tv_sec;
    }
    ts.tv_sec
}

#[no_mangle]
pub unsafe extern "C" fn gettimeofday(tv: *mut libc::timeval, _tz: *mut libc::c_void) -> libc::c_int {
    if !tv.is_null() {
        let mut ts = libc::timespec { tv_sec: 0, tv_nsec: 0 };
        clock_gettime(libc::CLOCK_REALTIME, &mut ts);
        (*tv).tv_sec = ts.tv_sec;
        (*tv).tv_usec = (ts.tv_nsec / 1000) as libc::suseconds_t;
    }
    0
}

// Who the process is: host name, user id, parent. A simulated process can be given an identity
// of its own (0 = the real one); pids differ between processes anyway.

static SIM_IDENTITY: AtomicU64 = AtomicU64::new(0);

pub fn set_process_identity(identity: u64) {
    SIM_IDENTITY.store(identity, Ordering::Relaxed);
}

fn sim_host_name() -> Option<String> {
    match SIM_IDENTITY.load(Ordering::Relaxed) {
        0 => None,
        id => Some(format!("builder-{:x}.example.net", id & 0xffff_ffff)),
    }
}

#[no_mangle]
pub unsafe extern "C" fn gethostname(name: *mut libc::c_char, len: libc::size_t) -> libc::c_int {
    let mut u: libc::utsname = std::mem::zeroed();
    if uname(&mut u) != 0 || name.is_null() {
        return -1;
    }
    let n = libc::strlen(u.nodename.as_ptr());
    if n + 1 > len {
        *libc::__errno_location() = libc::ENAMETOOLONG;
        return -1;
    }
    std::ptr::copy_nonoverlapping(u.nodename.as_ptr(), name, n + 1);
    0
}

#[no_mangle]
pub unsafe extern "C" fn uname(buf: *mut libc::utsname) -> libc::c_int {
    let r = libc::syscall(libc::SYS_uname, buf) as libc::c_int;
    if r == 0 && !buf.is_null() {
        if let Some(host) = sim_host_name() {
            let bytes = host.as_bytes();
            let n = bytes.len().min((*buf).nodename.len() - 1);
            for (i, b) in bytes[..n].iter().enumerate() {
                (*buf).nodename[i] = *b as libc::c_char;
            }
            (*buf).nodename[n] = 0;
        }
    }
    r
}

/// Whether the standard streams look like a terminal (half of the simulated identities say yes).
#[no_mangle]
pub unsafe extern "C" fn isatty(fd: libc::c_int) -> libc::c_int {
    let id = SIM_IDENTITY.load(Ordering::Relaxed);
    if id != 0 && (0..=2).contains(&fd) && (id >> 40) & 1 == 1 {
        return 1;
    }
    let mut termios: libc::termios = std::mem::zeroed();
    if libc::syscall(libc::SYS_ioctl, fd, libc::TCGETS, &mut termios) == 0 {
        1
    } else {
        0
    }
}

#[no_mangle]
pub unsafe extern "C" fn getuid() -> libc::uid_t {
    match SIM_IDENTITY.load(Ordering::Relaxed) {
        0 => libc::syscall(libc::SYS_getuid) as libc::uid_t,
        id => 1000 + (id % 50_000) as libc::uid_t,
    }
}

#[no_mangle]
pub unsafe extern "C" fn geteuid() -> libc::uid_t {
    match SIM_IDENTITY.load(Ordering::Relaxed) {
        0 => libc::syscall(libc::SYS_geteuid) as libc::uid_t,
        id => 1000 + (id % 50_000) as libc::uid_t,
    }
}

#[no_mangle]
pub unsafe extern "C" fn getppid() -> libc::pid_t {
    match SIM_IDENTITY.load(Ordering::Relaxed) {
        0 => libc::syscall(libc::SYS_getppid) as libc::pid_t,
        id => 2 + ((id >> 8) % 30_000) as libc::pid_t,
    }
}

#[no_mangle]
pub unsafe extern "C" fn nanosleep(req: *const libc::timespec, rem: *mut libc::timespec) -> libc::c_int {
    if !req.is_null() {
        let ns = ((*req).tv_sec.max(0) as u64).saturating_mul(1_000_000_000) + (*req).tv_nsec.max(0) as u64;
        if virtual_sleep(ns) {
            if !rem.is_null() {
                (*rem).tv_sec = 0;
                (*rem).tv_nsec = 0;
            }
            return 0;
        }
    }
    libc::syscall(libc::SYS_nanosleep, req, rem) as libc::c_int
}

#[no_mangle]
pub unsafe extern "C" fn clock_nanosleep(
    clk: libc::clockid_t,
    flags: libc::c_int,
    req: *const libc::timespec,
    rem: *mut libc::timespec,
) -> libc::c_int {
    if !req.is_null() {
        let mut ns = ((*req).tv_sec.max(0) as u64).saturating_mul(1_000_000_000) + (*req).tv_nsec.max(0) as u64;
        if flags & libc::TIMER_ABSTIME != 0 {
            let mut now = libc::timespec { tv_sec: 0, tv_nsec: 0 };
            clock_gettime(clk, &mut now);
            let now_ns = (now.tv_sec.max(0) as u64).saturating_mul(1_000_000_000) + now.tv_nsec.max(0) as u64;
            ns = ns.saturating_sub(now_ns);
        }
        if virtual_sleep(ns) {
            return 0;
        }
    }
    // clock_nanosleep returns the error number instead of setting errno
    let r = libc::syscall(libc::SYS_clock_nanosleep, clk, flags, req, rem);
    if r == 0 {
        0
    } else {
        *libc::__errno_location()
    }
}

#[no_mangle]
pub unsafe extern "C" fn sched_getaffinity(
    pid: libc::pid_t,
    size: libc::size_t,
    mask: *mut libc::cpu_set_t,
) -> libc::c_int {
    let r = libc::syscall(libc::SYS_sched_getaffinity, pid, size, mask);
    if r < 0 {
        return -1;
    }
    // like the libc wrapper: clear what the kernel did not write
    if !mask.is_null() && (r as usize) < size {
        std::ptr::write_bytes((mask as *mut u8).add(r as usize), 0, size - r as usize);
    }
    let want = SIM_CPUS.load(Ordering::Relaxed);
    if want > 0 && !mask.is_null() {
        // keep only the first `want` CPUs of the real mask
        let bytes = std::slice::from_raw_parts_mut(mask as *mut u8, (r as usize).min(size));
        let mut kept = 0;
        for byte in bytes.iter_mut() {
            for bit in 0..8 {
                if *byte & (1 << bit) != 0 {
                    if kept < want {
                        kept += 1;
                    } else {
                        *byte &= !(1 << bit);
                    }
                }
            }
        }
    }
    // the raw syscall returns the number of bytes written, the libc wrapper returns 0
    0
}

thread_local! {
    /// How many threads the calling thread has created (through pthread_create) so far.
    static THREADS_CREATED: Cell<u64> = const { Cell::new(0) };
}

/// Threads created by the calling thread since it started. A simulated run executes on a fresh
/// thread, so a non-zero value means the code under test uses helper threads.
pub fn threads_created_by_current_thread() -> u64 {
    THREADS_CREATED.try_with(|c| c.get()).unwrap_or(0)
}

/// Threads started by simulated threads since the process began (helper threads of the code under
/// test: they may outlive the call and serve other callers, like a pool).
pub static HELPER_THREADS_IN_PROCESS: AtomicU64 = AtomicU64::new(0);

pub fn helper_threads_in_process() -> u64 {
    HELPER_THREADS_IN_PROCESS.load(Ordering::Relaxed)
}

type PthreadCreate = unsafe extern "C" fn(
    *mut libc::pthread_t,
    *const libc::pthread_attr_t,
    extern "C" fn(*mut libc::c_void) -> *mut libc::c_void,
    *mut libc::c_void,
) -> libc::c_int;

#[no_mangle]
pub unsafe extern "C" fn pthread_create(
    thread: *mut libc::pthread_t,
    attr: *const libc::pthread_attr_t,
    start: extern "C" fn(*mut libc::c_void) -> *mut libc::c_void,
    arg: *mut libc::c_void,
) -> libc::c_int {
    static REAL: AtomicUsize = AtomicUsize::new(0);
    let mut real = REAL.load(Ordering::Relaxed);
    if real == 0 {
        real = libc::dlsym(libc::RTLD_NEXT, c"pthread_create".as_ptr()) as usize;
        if real == 0 {
            return libc::EAGAIN;
        }
        REAL.store(real, Ordering::Relaxed);
    }
    let _ = THREADS_CREATED.try_with(|c| c.set(c.get() + 1));
    // a simulated thread (one with an entropy stream of its own) starting a thread: the code
    // under test has helper threads in this process
    let simulated = ENTROPY
        .try_with(|e| e.try_borrow().map(|e| e.is_some()).unwrap_or(false))
        .unwrap_or(false);
    if simulated {
        HELPER_THREADS_IN_PROCESS.fetch_add(1, Ordering::Relaxed);
    }
    let real: PthreadCreate = std::mem::transmute(real);
    real(thread, attr, start, arg)
}

// ---------------------------------------------------------------------------------------------
// File-system probes: which files does the code under test LOOK FOR (and not find)?
//
// The generator under test opens no file at all. A change that looks for an optional file (a
// configuration file in the working directory, an override next to the shader, a cache entry in
// the home directory) observes state the statement forbids it to observe, but looking alone
// changes nothing one could see. The seam records the paths a simulated thread asked for inside a
// call and did not find; the driver then runs the same plan again with those files present and
// compares the results with the golden table: if the answer changes, the file was an input.

thread_local! {
    static FILE_PROBES: RefCell<Option<Vec<String>>> = const { RefCell::new(None) };
}

/// Start (Some(empty)) or stop recording on the calling thread.
pub fn set_file_probe_recording(on: bool) {
    let _ = FILE_PROBES.try_with(|p| {
        if let Ok(mut p) = p.try_borrow_mut() {
            if on {
                if p.is_none() {
                    *p = Some(Vec::new());
                }
            } else {
                *p = None;
            }
        }
    });
}

/// Pause or resume recording without losing what was recorded (the harness's own file access).
pub fn take_file_probes() -> Vec<String> {
    FILE_PROBES
        .try_with(|p| p.try_borrow_mut().ok().and_then(|mut p| p.as_mut().map(std::mem::take)))
        .ok()
        .flatten()
        .unwrap_or_default()
}

unsafe fn record_missing(dirfd: libc::c_int, path: *const libc::c_char) {
    if path.is_null() {
        return;
    }
    let _quiet = AllocPointsSuspended::new();
    let _ = FILE_PROBES.try_with(|p| {
        if let Ok(mut p) = p.try_borrow_mut() {
            if let Some(list) = p.as_mut() {
                let text = std::ffi::CStr::from_ptr(path).to_string_lossy().into_owned();
                let absolute = if text.starts_with('/') {
                    Some(text)
                } else if dirfd == libc::AT_FDCWD {
                    let mut buf = [0u8; 4096];
                    let n = libc::syscall(libc::SYS_getcwd, buf.as_mut_ptr(), buf.len());
                    if n > 0 {
                        let cwd = std::ffi::CStr::from_ptr(buf.as_ptr() as *const libc::c_char).to_string_lossy();
                        Some(format!("{}/{}", cwd.trim_end_matches('/'), text))
                    } else {
                        None
                    }
                } else {
                    None
                };
                if let Some(a) = absolute {
                    if list.len() < 64 && !list.contains(&a) {
                        list.push(a);
                    }
                }
            }
        }
    });
}

// The same for the environment: names the calls ask for and that are not set. `std::env::var*`
// goes through libc's `getenv`, which is this function in the harness binary.

thread_local! {
    static ENV_PROBES: RefCell<Option<Vec<String>>> = const { RefCell::new(None) };
}

pub fn set_env_probe_recording(on: bool) {
    let _ = ENV_PROBES.try_with(|p| {
        if let Ok(mut p) = p.try_borrow_mut() {
            if on {
                if p.is_none() {
                    *p = Some(Vec::new());
                }
            } else {
                *p = None;
            }
        }
    });
}

pub fn take_env_probes() -> Vec<String> {
    ENV_PROBES
        .try_with(|p| p.try_borrow_mut().ok().and_then(|mut p| p.as_mut().map(std::mem::take)))
        .ok()
        .flatten()
        .unwrap_or_default()
}

extern "C" {
    static environ: *const *const libc::c_char;
}

#[no_mangle]
pub unsafe extern "C" fn getenv(name: *const libc::c_char) -> *mut libc::c_char {
    if name.is_null() {
        return std::ptr::null_mut();
    }
    let wanted = std::ffi::CStr::from_ptr(name).to_bytes();
    let mut entry = environ;
    if !entry.is_null() && !wanted.is_empty() {
        while !(*entry).is_null() {
            let bytes = std::ffi::CStr::from_ptr(*entry).to_bytes();
            if bytes.len() > wanted.len() && bytes[wanted.len()] == b'=' && &bytes[..wanted.len()] == wanted {
                return (*entry).add(wanted.len() + 1) as *mut libc::c_char;
            }
            entry = entry.add(1);
        }
    }
    let _quiet = AllocPointsSuspended::new();
    let _ = ENV_PROBES.try_with(|p| {
        if let Ok(mut p) = p.try_borrow_mut() {
            if let Some(list) = p.as_mut() {
                let text = String::from_utf8_lossy(wanted).into_owned();
                // The harness's own switches are read through the same function, and so are the
                // standard library's: RUST_MIN_STACK (read when a thread is spawned; "1" would
                // give every helper thread of the code under test a minimal stack),
                // RUST_BACKTRACE and RUST_LIB_BACKTRACE (read when a panic is reported). What they
                // do is std's behaviour, not the generator's.
                let std_internal = matches!(text.as_str(), "RUST_MIN_STACK" | "RUST_BACKTRACE" | "RUST_LIB_BACKTRACE");
                if !text.starts_with("VERIF_") && !std_internal && list.len() < 32 && !list.contains(&text) {
                    list.push(text);
                }
            }
        }
    });
    std::ptr::null_mut()
}

// Directory listings: `read_dir` goes through `opendir`. Which directories do the calls list?
// (Existing or not: the driver puts near misses and conventional neighbours into them for a
// second execution.)

thread_local! {
    static DIR_PROBES: RefCell<Option<Vec<String>>> = const { RefCell::new(None) };
}

pub fn set_dir_probe_recording(on: bool) {
    let _ = DIR_PROBES.try_with(|p| {
        if let Ok(mut p) = p.try_borrow_mut() {
            if on {
                if p.is_none() {
                    *p = Some(Vec::new());
                }
            } else {
                *p = None;
            }
        }
    });
}

pub fn take_dir_probes() -> Vec<String> {
    DIR_PROBES
        .try_with(|p| p.try_borrow_mut().ok().and_then(|mut p| p.as_mut().map(std::mem::take)))
        .ok()
        .flatten()
        .unwrap_or_default()
}

#[no_mangle]
pub unsafe extern "C" fn opendir(name: *const libc::c_char) -> *mut libc::DIR {
    static REAL: AtomicUsize = AtomicUsize::new(0);
    let mut real = REAL.load(Ordering::Relaxed);
    if real == 0 {
        real = libc::dlsym(libc::RTLD_NEXT, c"opendir".as_ptr()) as usize;
        if real == 0 {
            *libc::__errno_location() = libc::ENOSYS;
            return std::ptr::null_mut();
        }
        REAL.store(real, Ordering::Relaxed);
    }
    if !name.is_null() {
        let _quiet = AllocPointsSuspended::new();
        let _ = DIR_PROBES.try_with(|p| {
            if let Ok(mut p) = p.try_borrow_mut() {
                if let Some(list) = p.as_mut() {
                    let text = std::ffi::CStr::from_ptr(name).to_string_lossy().into_owned();
                    let absolute = if text.starts_with('/') {
                        Some(text)
                    } else {
                        let mut buf = [0u8; 4096];
                        let n = libc::syscall(libc::SYS_getcwd, buf.as_mut_ptr(), buf.len());
                        (n > 0).then(|| {
                            let cwd = std::ffi::CStr::from_ptr(buf.as_ptr() as *const libc::c_char).to_string_lossy();
                            format!("{}/{}", cwd.trim_end_matches('/'), text)
                        })
                    };
                    if let Some(a) = absolute {
                        if list.len() < 32 && !list.contains(&a) {
                            list.push(a);
                        }
                    }
                }
            }
        });
    }
    let real: unsafe extern "C" fn(*const libc::c_char) -> *mut libc::DIR = std::mem::transmute(real);
    real(name)
}

unsafe fn errno() -> libc::c_int {
    *libc::__errno_location()
}

unsafe fn sys_ret(r: libc::c_long) -> libc::c_int {
    // raw syscalls through libc::syscall already follow the -1/errno convention
    r as libc::c_int
}

#[no_mangle]
pub unsafe extern "C" fn openat(dirfd: libc::c_int, path: *const libc::c_char, flags: libc::c_int, mode: libc::c_uint) -> libc::c_int {
    let r = sys_ret(libc::syscall(libc::SYS_openat, dirfd, path, flags, mode));
    if r < 0 && errno() == libc::ENOENT && flags & libc::O_CREAT == 0 {
        let e = errno();
        record_missing(dirfd, path);
        *libc::__errno_location() = e;
    }
    r
}

#[no_mangle]
pub unsafe extern "C" fn openat64(dirfd: libc::c_int, path: *const libc::c_char, flags: libc::c_int, mode: libc::c_uint) -> libc::c_int {
    openat(dirfd, path, flags | libc::O_LARGEFILE, mode)
}

#[no_mangle]
pub unsafe extern "C" fn open(path: *const libc::c_char, flags: libc::c_int, mode: libc::c_uint) -> libc::c_int {
    openat(libc::AT_FDCWD, path, flags, mode)
}

#[no_mangle]
pub unsafe extern "C" fn open64(path: *const libc::c_char, flags: libc::c_int, mode: libc::c_uint) -> libc::c_int {
    openat(libc::AT_FDCWD, path, flags | libc::O_LARGEFILE, mode)
}

#[no_mangle]
pub unsafe extern "C" fn statx(
    dirfd: libc::c_int,
    path: *const libc::c_char,
    flags: libc::c_int,
    mask: libc::c_uint,
    buf: *mut libc::statx,
) -> libc::c_int {
    let r = sys_ret(libc::syscall(libc::SYS_statx, dirfd, path, flags, mask, buf));
    if r < 0 && errno() == libc::ENOENT {
        let e = errno();
        record_missing(dirfd, path);
        *libc::__errno_location() = e;
    }
    r
}

#[no_mangle]
pub unsafe extern "C" fn access(path: *const libc::c_char, mode: libc::c_int) -> libc::c_int {
    let r = sys_ret(libc::syscall(libc::SYS_faccessat, libc::AT_FDCWD, path, mode));
    if r < 0 && errno() == libc::ENOENT {
        let e = errno();
        record_missing(libc::AT_FDCWD, path);
        *libc::__errno_location() = e;
    }
    r
}

// ---------------------------------------------------------------------------------------------
// Allocation points: scheduling points in code that has no hook at all.
//
// Every heap allocation made by a simulated thread while it is inside a library call is counted;
// every `every`-th one calls the thread's allocation hook, which the baton scheduler uses as a
// scheduling point. Allocation sequences of deterministic code are deterministic, so the schedule
// remains a function of the seed. Windows between two `verif_point!` sites, and code added by a
// change without any hook, become interruptible this way.

pub struct CountingAlloc;

struct AllocCtx {
    every: u64,
    count: Cell<u64>,
    busy: Cell<bool>,
    active: Cell<bool>,
    hook: Box<dyn Fn()>,
}

thread_local! {
    static ALLOC_CTX: Cell<*const AllocCtx> = const { Cell::new(std::ptr::null()) };
}

pub static ALLOC_POINTS: AtomicU64 = AtomicU64::new(0);

/// Install the allocation hook of the calling thread (every `every`-th allocation; 0 = never).
pub fn set_alloc_hook(every: u64, hook: Option<Box<dyn Fn()>>) {
    let old = ALLOC_CTX.with(|c| c.replace(std::ptr::null()));
    if !old.is_null() {
        drop(unsafe { Box::from_raw(old as *mut AllocCtx) });
    }
    if let (Some(hook), true) = (hook, every > 0) {
        let ctx = Box::new(AllocCtx {
            every,
            count: Cell::new(0),
            busy: Cell::new(false),
            active: Cell::new(false),
            hook,
        });
        ALLOC_CTX.with(|c| c.set(Box::into_raw(ctx)));
    }
}

/// Allocation points are only taken while the thread is inside a call of the code under test.
pub fn set_alloc_points_active(active: bool) {
    let p = ALLOC_CTX.with(|c| c.get());
    if !p.is_null() {
        unsafe { (*p).active.set(active) };
    }
}

/// While a value of this type lives, allocations of the calling thread are not scheduling points
/// (the scheduler and the simulator's own bookkeeping allocate too).
pub struct AllocPointsSuspended {
    ctx: *const AllocCtx,
    was_busy: bool,
}

impl AllocPointsSuspended {
    pub fn new() -> Self {
        let ctx = ALLOC_CTX.try_with(|c| c.get()).unwrap_or(std::ptr::null());
        let was_busy = if ctx.is_null() {
            false
        } else {
            unsafe { (*ctx).busy.replace(true) }
        };
        AllocPointsSuspended { ctx, was_busy }
    }
}

impl Drop for AllocPointsSuspended {
    fn drop(&mut self) {
        if !self.ctx.is_null() {
            // the context may have been replaced meanwhile only by this same thread at teardown
            let now = ALLOC_CTX.try_with(|c| c.get()).unwrap_or(std::ptr::null());
            if now == self.ctx {
                unsafe { (*self.ctx).busy.set(self.was_busy) };
            }
        }
    }
}

#[inline]
fn allocation_point() {
    let p = match ALLOC_CTX.try_with(|c| c.get()) {
        Ok(p) => p,
        Err(_) => return,
    };
    if p.is_null() {
        return;
    }
    let ctx = unsafe { &*p };
    if !ctx.active.get() || ctx.busy.get() || std::thread::panicking() {
        return;
    }
    let n = ctx.count.get() + 1;
    ctx.count.set(n);
    if n % ctx.every == 0 {
        ctx.busy.set(true);
        ALLOC_POINTS.fetch_add(1, Ordering::Relaxed);
        (ctx.hook)();
        ctx.busy.set(false);
    }
}

unsafe impl std::alloc::GlobalAlloc for CountingAlloc {
    unsafe fn alloc(&self, layout: std::alloc::Layout) -> *mut u8 {
        allocation_point();
        std::alloc::System.alloc(layout)
    }
    unsafe fn dealloc(&self, ptr: *mut u8, layout: std::alloc::Layout) {
        std::alloc::System.dealloc(ptr, layout)
    }
    unsafe fn alloc_zeroed(&self, layout: std::alloc::Layout) -> *mut u8 {
        allocation_point();
        std::alloc::System.alloc_zeroed(layout)
    }
    unsafe fn realloc(&self, ptr: *mut u8, layout: std::alloc::Layout, new_size: usize) -> *mut u8 {
        allocation_point();
        std::alloc::System.realloc(ptr, layout, new_size)
    }
}
