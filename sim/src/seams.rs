//! Seams the code under test already has: OS entropy and the wall clock.
//!
//! std is linked statically into this executable, so its references to `getrandom` and
//! `clock_gettime` resolve to the definitions below. Every `RandomState` in the process is
//! therefore keyed from the simulator's PRNG (per simulated thread), and `SystemTime::now()`
//! follows the skew chosen by the run's plan.

use crate::rng::Rng;
use std::cell::{Cell, RefCell};
use std::sync::atomic::{AtomicI64, AtomicU64, AtomicUsize, Ordering};

thread_local! {
    static ENTROPY: RefCell<Option<Rng>> = const { RefCell::new(None) };
}

thread_local! {
    /// Installed on simulated threads: a sleep becomes a scheduling point plus virtual time.
    static SLEEP_HOOK: RefCell<Option<Box<dyn Fn(u64)>>> = const { RefCell::new(None) };
    /// Nanoseconds this thread has "slept" virtually; added to its monotonic clock readings.
    static VIRTUAL_SLEPT_NS: Cell<u64> = const { Cell::new(0) };
}

pub static VIRTUAL_SLEEPS: AtomicU64 = AtomicU64::new(0);
/// Number of CPUs reported to the process through sched_getaffinity (0 = the real answer).
static SIM_CPUS: AtomicUsize = AtomicUsize::new(0);

/// Sleeps of the calling thread no longer block: `hook(ns)` is called instead and the thread's
/// monotonic clock jumps ahead by the requested time.
pub fn set_sleep_hook(hook: Option<Box<dyn Fn(u64)>>) {
    SLEEP_HOOK.with(|h| *h.borrow_mut() = hook);
    VIRTUAL_SLEPT_NS.with(|v| v.set(0));
}

pub fn set_cpu_count(n: usize) {
    SIM_CPUS.store(n, Ordering::SeqCst);
}

fn virtual_sleep(ns: u64) -> bool {
    let hooked = SLEEP_HOOK
        .try_with(|h| {
            if let Ok(guard) = h.try_borrow() {
                if let Some(hook) = guard.as_ref() {
                    hook(ns);
                    return true;
                }
            }
            false
        })
        .unwrap_or(false);
    if hooked {
        VIRTUAL_SLEEPS.fetch_add(1, Ordering::Relaxed);
        let _ = VIRTUAL_SLEPT_NS.try_with(|v| v.set(v.get().saturating_add(ns)));
    }
    hooked
}

pub static ENTROPY_REQUESTS_SIM: AtomicU64 = AtomicU64::new(0);
pub static ENTROPY_REQUESTS_REAL: AtomicU64 = AtomicU64::new(0);
pub static REALTIME_READS: AtomicU64 = AtomicU64::new(0);
static CLOCK_SKEW_S: AtomicI64 = AtomicI64::new(0);
static CLOCK_JUMP_S: AtomicI64 = AtomicI64::new(0);
static CLOCK_JUMP_AFTER: AtomicU64 = AtomicU64::new(u64::MAX);

/// Give the calling thread its own entropy stream (or remove it).
pub fn set_thread_entropy(seed: Option<u64>) {
    ENTROPY.with(|e| *e.borrow_mut() = seed.map(Rng::new));
}

/// Skew applied to CLOCK_REALTIME for the whole process, plus one jump after `after` reads.
pub fn set_clock(skew_s: i64, jump_s: i64, after_reads: u64) {
    CLOCK_SKEW_S.store(skew_s, Ordering::SeqCst);
    CLOCK_JUMP_S.store(jump_s, Ordering::SeqCst);
    CLOCK_JUMP_AFTER.store(after_reads, Ordering::SeqCst);
}

#[no_mangle]
pub unsafe extern "C" fn getrandom(buf: *mut u8, len: usize, flags: u32) -> isize {
    let served = ENTROPY
        .try_with(|e| {
            if let Ok(mut guard) = e.try_borrow_mut() {
                if let Some(rng) = guard.as_mut() {
                    let slice = std::slice::from_raw_parts_mut(buf, len);
                    rng.fill(slice);
                    return true;
                }
            }
            false
        })
        .unwrap_or(false);
    if served {
        ENTROPY_REQUESTS_SIM.fetch_add(1, Ordering::Relaxed);
        return len as isize;
    }
    ENTROPY_REQUESTS_REAL.fetch_add(1, Ordering::Relaxed);
    libc::syscall(libc::SYS_getrandom, buf, len, flags) as isize
}

#[no_mangle]
pub unsafe extern "C" fn clock_gettime(clk: libc::clockid_t, ts: *mut libc::timespec) -> libc::c_int {
    let r = libc::syscall(libc::SYS_clock_gettime, clk, ts) as libc::c_int;
    if r == 0
        && !ts.is_null()
        && matches!(
            clk,
            libc::CLOCK_MONOTONIC | libc::CLOCK_MONOTONIC_RAW | libc::CLOCK_MONOTONIC_COARSE | libc::CLOCK_BOOTTIME
        )
    {
        let slept = VIRTUAL_SLEPT_NS.try_with(|v| v.get()).unwrap_or(0);
        if slept > 0 {
            let total = (*ts).tv_nsec as u64 + slept % 1_000_000_000;
            (*ts).tv_sec += (slept / 1_000_000_000) as libc::time_t + (total / 1_000_000_000) as libc::time_t;
            (*ts).tv_nsec = (total % 1_000_000_000) as _;
        }
    }
    if r == 0 && clk == libc::CLOCK_REALTIME && !ts.is_null() {
        let n = REALTIME_READS.fetch_add(1, Ordering::Relaxed);
        let mut skew = CLOCK_SKEW_S.load(Ordering::Relaxed);
        if n >= CLOCK_JUMP_AFTER.load(Ordering::Relaxed) {
            skew += CLOCK_JUMP_S.load(Ordering::Relaxed);
        }
        (*ts).tv_sec += skew as libc::time_t;
    }
    r
}

#[no_mangle]
pub unsafe extern "C" fn nanosleep(req: *const libc::timespec, rem: *mut libc::timespec) -> libc::c_int {
    if !req.is_null() {
        let ns = ((*req).tv_sec.max(0) as u64).saturating_mul(1_000_000_000) + (*req).tv_nsec.max(0) as u64;
        if virtual_sleep(ns) {
            if !rem.is_null() {
                (*rem).tv_sec = 0;
                (*rem).tv_nsec = 0;
            }
            return 0;
        }
    }
    libc::syscall(libc::SYS_nanosleep, req, rem) as libc::c_int
}

#[no_mangle]
pub unsafe extern "C" fn clock_nanosleep(
    clk: libc::clockid_t,
    flags: libc::c_int,
    req: *const libc::timespec,
    rem: *mut libc::timespec,
) -> libc::c_int {
    if !req.is_null() {
        let mut ns = ((*req).tv_sec.max(0) as u64).saturating_mul(1_000_000_000) + (*req).tv_nsec.max(0) as u64;
        if flags & libc::TIMER_ABSTIME != 0 {
            let mut now = libc::timespec { tv_sec: 0, tv_nsec: 0 };
            clock_gettime(clk, &mut now);
            let now_ns = (now.tv_sec.max(0) as u64).saturating_mul(1_000_000_000) + now.tv_nsec.max(0) as u64;
            ns = ns.saturating_sub(now_ns);
        }
        if virtual_sleep(ns) {
            return 0;
        }
    }
    // clock_nanosleep returns the error number instead of setting errno
    let r = libc::syscall(libc::SYS_clock_nanosleep, clk, flags, req, rem);
    if r == 0 {
        0
    } else {
        *libc::__errno_location()
    }
}

#[no_mangle]
pub unsafe extern "C" fn sched_getaffinity(
    pid: libc::pid_t,
    size: libc::size_t,
    mask: *mut libc::cpu_set_t,
) -> libc::c_int {
    let r = libc::syscall(libc::SYS_sched_getaffinity, pid, size, mask);
    if r < 0 {
        return -1;
    }
    // like the libc wrapper: clear what the kernel did not write
    if !mask.is_null() && (r as usize) < size {
        std::ptr::write_bytes((mask as *mut u8).add(r as usize), 0, size - r as usize);
    }
    let want = SIM_CPUS.load(Ordering::Relaxed);
    if want > 0 && !mask.is_null() {
        // keep only the first `want` CPUs of the real mask
        let bytes = std::slice::from_raw_parts_mut(mask as *mut u8, (r as usize).min(size));
        let mut kept = 0;
        for byte in bytes.iter_mut() {
            for bit in 0..8 {
                if *byte & (1 << bit) != 0 {
                    if kept < want {
                        kept += 1;
                    } else {
                        *byte &= !(1 << bit);
                    }
                }
            }
        }
    }
    // the raw syscall returns the number of bytes written, the libc wrapper returns 0
    0
}

thread_local! {
    /// How many threads the calling thread has created (through pthread_create) so far.
    static THREADS_CREATED: Cell<u64> = const { Cell::new(0) };
}

/// Threads created by the calling thread since it started. A simulated run executes on a fresh
/// thread, so a non-zero value means the code under test uses helper threads.
pub fn threads_created_by_current_thread() -> u64 {
    THREADS_CREATED.try_with(|c| c.get()).unwrap_or(0)
}

type PthreadCreate = unsafe extern "C" fn(
    *mut libc::pthread_t,
    *const libc::pthread_attr_t,
    extern "C" fn(*mut libc::c_void) -> *mut libc::c_void,
    *mut libc::c_void,
) -> libc::c_int;

#[no_mangle]
pub unsafe extern "C" fn pthread_create(
    thread: *mut libc::pthread_t,
    attr: *const libc::pthread_attr_t,
    start: extern "C" fn(*mut libc::c_void) -> *mut libc::c_void,
    arg: *mut libc::c_void,
) -> libc::c_int {
    static REAL: AtomicUsize = AtomicUsize::new(0);
    let mut real = REAL.load(Ordering::Relaxed);
    if real == 0 {
        real = libc::dlsym(libc::RTLD_NEXT, c"pthread_create".as_ptr()) as usize;
        if real == 0 {
            return libc::EAGAIN;
        }
        REAL.store(real, Ordering::Relaxed);
    }
    let _ = THREADS_CREATED.try_with(|c| c.set(c.get() + 1));
    let real: PthreadCreate = std::mem::transmute(real);
    real(thread, attr, start, arg)
}
