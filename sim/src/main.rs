//! wgsl-sim: deterministic simulation with fault injection for wgsl_to_wgpu (see /verif/DESIGN.md).

mod c18;
mod c19;
mod c20;
mod corpus;
mod evidence;
mod known;
mod procsim;
mod realkernel;
mod rng;
mod sched;
mod seams;
mod tokens;

use std::cell::RefCell;

#[global_allocator]
static GLOBAL: seams::CountingAlloc = seams::CountingAlloc;

/// Panic payloads raised by the simulator itself (never by the code under test).
#[derive(Debug, Clone, Copy, PartialEq, Eq)]
pub enum Sentinel {
    /// Parent and child can neither make progress.
    Hang(&'static str),
    /// The virtual-time / step budget of the run is exhausted.
    StepCap,
    /// The virtual clock budget of C20 is exhausted.
    Budget,
    /// Injected crash of a caller (C18).
    Crash,
    /// The scheduler is shutting the run down.
    Abort,
}

thread_local! {
    static LAST_PANIC_LOCATION: RefCell<Option<String>> = const { RefCell::new(None) };
}

pub fn take_panic_location() -> Option<String> {
    LAST_PANIC_LOCATION.with(|l| l.borrow_mut().take())
}

/// Number of times the harness's own panic hook ran: lets a worker probe whether the code under
/// test replaced the process-wide hook and failed to put it back.
pub static HARNESS_HOOK_CALLS: std::sync::atomic::AtomicU64 = std::sync::atomic::AtomicU64::new(0);

/// `true` if a panic raised now still reaches the hook the harness installed.
pub fn panic_hook_is_ours() -> bool {
    let before = HARNESS_HOOK_CALLS.load(std::sync::atomic::Ordering::SeqCst);
    let _ = std::panic::catch_unwind(|| std::panic::panic_any(Sentinel::Abort));
    HARNESS_HOOK_CALLS.load(std::sync::atomic::Ordering::SeqCst) > before
}

fn install_quiet_panic_hook() {
    std::panic::set_hook(Box::new(|info| {
        HARNESS_HOOK_CALLS.fetch_add(1, std::sync::atomic::Ordering::SeqCst);
        let loc = info
            .location()
            .map(|l| format!("{}:{}", l.file(), l.line()));
        let _ = LAST_PANIC_LOCATION.try_with(|l| *l.borrow_mut() = loc);
        if std::env::var_os("VERIF_SHOW_PANICS").is_some() {
            eprintln!("[panic] {info}");
        }
    }));
}

pub const DEFAULT_SEED: u64 = 20261004;

pub fn verif_seed() -> u64 {
    std::env::var("VERIF_SEED")
        .ok()
        .and_then(|s| s.trim().parse::<u64>().ok())
        .unwrap_or(DEFAULT_SEED)
}

pub fn verif_dir() -> std::path::PathBuf {
    std::path::PathBuf::from(std::env::var("VERIF_DIR").unwrap_or_else(|_| "/verif".to_string()))
}

pub fn workers() -> usize {
    std::env::var("VERIF_WORKERS")
        .ok()
        .and_then(|s| s.parse().ok())
        .unwrap_or_else(|| {
            std::thread::available_parallelism()
                .map(|n| n.get())
                .unwrap_or(4)
        })
        .max(1)
}

#[derive(Debug, Clone, Copy, PartialEq, Eq)]
pub enum Tier {
    Quick,
    Thorough,
}

impl Tier {
    pub fn name(self) -> &'static str {
        match self {
            Tier::Quick => "quick",
            Tier::Thorough => "thorough",
        }
    }
}

fn usage() -> ! {
    eprintln!(
        "usage: wgsl-sim <c18|c19|c20> <quick|thorough>\n       wgsl-sim replay <file>\n       wgsl-sim selftest <c18|c19|c20>\n       (internal) wgsl-sim c18-proc | fake-rustfmt"
    );
    std::process::exit(2)
}

fn main() {
    // A copy of this binary named `rustfmt` is the scripted real child of the kernel cross-check.
    let argv0 = std::env::args().next().unwrap_or_default();
    if argv0.ends_with("/rustfmt") || argv0 == "rustfmt" {
        if std::env::var_os("WGSL_SIM_CHILD_SCRIPT").is_some() {
            realkernel::child_main();
        }
    }

    install_quiet_panic_hook();
    let args: Vec<String> = std::env::args().skip(1).collect();
    let tier = |s: Option<&String>| match s.map(|s| s.as_str()) {
        Some("quick") | None => Tier::Quick,
        Some("thorough") => Tier::Thorough,
        _ => usage(),
    };
    let code = match args.first().map(|s| s.as_str()) {
        Some("c19") => c19::main(tier(args.get(1))),
        Some("c20") => c20::main(tier(args.get(1))),
        Some("c18") => c18::main(tier(args.get(1))),
        Some("c18-proc") => c18::proc_main(),
        Some("c18-debug") => c18::debug_plan(args.get(1).and_then(|s| s.parse().ok()).unwrap_or(0)),
        Some("c19-real") => c19::real_main(),
        Some("c19-one") => c19::one_main(&args[1..]),
        Some("c19-worker") => c19::worker_main(&args[1..]),
        Some("kernel") => realkernel::main(tier(args.get(1))),
        Some("kernel-case") => realkernel::case_main(),
        Some("c20-batch") => c20::batch_main(&args[1..]),
        Some("c20-one") => c20::one_main(&args[1..]),
        Some("replay") => match args.get(1) {
            Some(path) => replay(path),
            None => usage(),
        },
        Some("selftest") => match args.get(1).map(|s| s.as_str()) {
            Some("c19") => c19::selftest(),
            Some("c18") => c18::selftest(),
            Some("c20") => c20::selftest(),
            _ => usage(),
        },
        Some("probe-deep") => {
            for shape in 0..3u8 {
                for depth in [30u32, 47] {
                    for variant in 0..6u32 {
                        let src = corpus::deep_shader(shape, depth, variant);
                        let mut o = corpus::Opts::plain();
                        o.validate = true;
                        o.bytemuck_host = variant % 2 == 0;
                        let out = corpus::run_job(&src, None, o);
                        println!("shape {shape} depth {depth} variant {variant}: {}", out.brief());
                    }
                }
            }
            0
        }
        Some("probe-gen") => {
            // debugging aid: outcome classes of generated shaders under random options
            let mut rng = rng::Rng::new(1);
            let mut hist = std::collections::BTreeMap::<String, u64>::new();
            for i in 0..400u64 {
                let scale = (i % 12 + 1) as u32;
                let src = corpus::gen_shader(i, scale);
                let mut o = corpus::Opts::random(&mut rng);
                o.validate = i % 2 == 0;
                let out = corpus::run_job(&src, None, o);
                let key = match &out {
                    corpus::Outcome::Ok { text } => format!("ok val={} ~{}KB", o.validate, text.len() / 20000 * 20),
                    corpus::Outcome::Err { display, .. } => format!("err val={} {}", o.validate, &display[..display.len().min(90)]),
                    corpus::Outcome::Panic { message } => format!("panic {}", &message[..message.len().min(70)]),
                };
                *hist.entry(key).or_default() += 1;
            }
            for (k, v) in hist {
                println!("{v:5} {k}");
            }
            0
        }
        Some("probe-sibling") => {
            // debugging aid: outcome classes of the sibling family under random options
            let mut rng = rng::Rng::new(1);
            let mut hist = std::collections::BTreeMap::<String, u64>::new();
            for i in 0..600u64 {
                let src = corpus::sibling_shader(i % 40, (i / 40) as u32);
                let mut o = corpus::Opts::random(&mut rng);
                o.validate = true;
                o.rustfmt = false;
                let out = corpus::run_job(&src, None, o);
                let key = match &out {
                    corpus::Outcome::Ok { .. } => "ok".to_string(),
                    corpus::Outcome::Err { display, .. } => format!("err {}", &display[..display.len().min(200)]),
                    corpus::Outcome::Panic { message } => format!("panic {}", &message[..message.len().min(200)]),
                };
                if key != "ok" && hist.get(&key).is_none() {
                    println!("--- {key}\n{src}");
                }
                *hist.entry(key).or_default() += 1;
            }
            for (k, v) in hist {
                println!("{v:5} {k}");
            }
            0
        }
        Some("gen") => {
            // debugging aid: print a generated shader
            let seed = args.get(1).and_then(|s| s.parse().ok()).unwrap_or(1);
            let scale = args.get(2).and_then(|s| s.parse().ok()).unwrap_or(1);
            println!("{}", corpus::gen_shader(seed, scale));
            0
        }
        _ => usage(),
    };
    std::process::exit(code);
}

fn replay(path: &str) -> i32 {
    let text = match std::fs::read_to_string(path) {
        Ok(t) => t,
        Err(e) => {
            eprintln!("HARNESS-ERROR cannot read replay file {path}: {e}");
            return 2;
        }
    };
    let value: serde_json::Value = match serde_json::from_str(&text) {
        Ok(v) => v,
        Err(e) => {
            eprintln!("HARNESS-ERROR replay file {path} is not JSON: {e}");
            return 2;
        }
    };
    match value.get("property").and_then(|p| p.as_str()) {
        Some("C19") => c19::replay(path, &value),
        Some("C20") => c20::replay(path, &value),
        Some("C18") => c18::replay(path, &value),
        other => {
            eprintln!("HARNESS-ERROR replay file {path}: unknown property {other:?}");
            2
        }
    }
}
