//! "Same Rust program, token for token": flat token sequences, with the single normalisation
//! that a `,` directly before a closing delimiter is dropped (both printers add trailing commas).

use proc_macro2::{Delimiter, TokenStream, TokenTree};

fn flatten(stream: TokenStream, out: &mut Vec<String>) {
    for tree in stream {
        match tree {
            TokenTree::Group(group) => {
                let (open, close) = match group.delimiter() {
                    Delimiter::Parenthesis => ("(", ")"),
                    Delimiter::Brace => ("{", "}"),
                    Delimiter::Bracket => ("[", "]"),
                    Delimiter::None => ("", ""),
                };
                if !open.is_empty() {
                    out.push(open.to_string());
                }
                flatten(group.stream(), out);
                if !close.is_empty() {
                    if out.last().map(|s| s == ",").unwrap_or(false) {
                        out.pop();
                    }
                    out.push(close.to_string());
                }
            }
            TokenTree::Ident(ident) => out.push(ident.to_string()),
            TokenTree::Punct(punct) => out.push(punct.as_char().to_string()),
            TokenTree::Literal(literal) => out.push(literal.to_string()),
        }
    }
}

/// Lex `text` into the normalised flat token list; `Err` if it does not lex as Rust.
pub fn lex(text: &str) -> Result<Vec<String>, String> {
    let stream: TokenStream = text.parse().map_err(|e| format!("{e}"))?;
    let mut out = Vec::new();
    flatten(stream, &mut out);
    Ok(out)
}

#[derive(Debug, Clone, PartialEq, Eq)]
pub enum Cmp {
    Equal,
    /// The candidate does not lex.
    Unlexable(String),
    /// The candidate is a strict prefix of the reference (truncated program).
    Truncated { have: usize, want: usize },
    /// First differing token index with both tokens.
    Differs { at: usize, have: String, want: String },
    /// The only differences are `;` tokens between a closing `}` and a following `if`:
    /// the separators `OverrideConstants::constants` puts between its `if let` statements,
    /// which prettyplease drops and rustfmt / the raw token string keep.
    SemicolonBetweenIfLets { count: usize },
}

impl Cmp {
    pub fn class(&self) -> &'static str {
        match self {
            Cmp::Equal => "equal",
            Cmp::Unlexable(_) => "unlexable",
            Cmp::Truncated { .. } => "truncated",
            Cmp::Differs { .. } => "different_tokens",
            Cmp::SemicolonBetweenIfLets { .. } => "semicolon_between_override_if_lets",
        }
    }
}

pub fn compare(reference: &[String], candidate_text: &str) -> Cmp {
    let cand = match lex(candidate_text) {
        Ok(c) => c,
        Err(e) => return Cmp::Unlexable(e),
    };
    if cand.len() < reference.len() && cand[..] == reference[..cand.len()] {
        return Cmp::Truncated {
            have: cand.len(),
            want: reference.len(),
        };
    }
    if cand[..] != reference[..] {
        let strip = |toks: &[String]| -> (Vec<String>, usize) {
            let mut out: Vec<String> = Vec::with_capacity(toks.len());
            let mut dropped = 0;
            for (i, t) in toks.iter().enumerate() {
                let after_brace = i > 0 && toks[i - 1] == "}";
                let before_if = toks.get(i + 1).map(|n| n == "if").unwrap_or(false);
                if t == ";" && after_brace && before_if {
                    dropped += 1;
                } else {
                    out.push(t.clone());
                }
            }
            (out, dropped)
        };
        let (c, dc) = strip(&cand);
        let (r, dr) = strip(reference);
        if c == r && dc != dr {
            return Cmp::SemicolonBetweenIfLets {
                count: dc.abs_diff(dr),
            };
        }
    }
    for (i, (a, b)) in cand.iter().zip(reference.iter()).enumerate() {
        if a != b {
            return Cmp::Differs {
                at: i,
                have: a.clone(),
                want: b.clone(),
            };
        }
    }
    if cand.len() != reference.len() {
        let at = cand.len().min(reference.len());
        return Cmp::Differs {
            at,
            have: cand.get(at).cloned().unwrap_or_else(|| "<end>".into()),
            want: reference.get(at).cloned().unwrap_or_else(|| "<end>".into()),
        };
    }
    Cmp::Equal
}
