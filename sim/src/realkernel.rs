//! Keeping the formatter-process model honest (DESIGN §4.4): the same scenarios on the real kernel.
//!
//! The parent is the real library code; the child is a real process (a copy of this binary named
//! `rustfmt`, first on PATH) executing the same `Op` script with real reads, writes, exits and
//! signals over real pipes. The three orderings are forced, not hoped for. The outcome class from
//! the kernel must equal the model's for the same scenario; a disagreement is a defect of the
//! model (exit 2), never a verdict about the library.

use crate::c19::{self, Case};
use crate::corpus::{self, Job, Opts, ShaderRef};
use crate::procsim::{Op, ProcPlan, SpawnPlan};
use crate::Tier;
use serde::{Deserialize, Serialize};
use std::collections::BTreeMap;
use std::io::{Read, Write};
use std::os::unix::process::ExitStatusExt;
use std::process::ExitStatus;
use std::sync::{Arc, Mutex};
use wgsl_to_wgpu::verif_hooks::{
    self,
    process::{ChildIo, Fd, SpawnSpec, StdioKind},
    Backend,
};

#[derive(Debug, Clone, Copy, Serialize, Deserialize, PartialEq, Eq)]
#[serde(rename_all = "snake_case")]
pub enum Order {
    /// The child has done everything it can (usually: is a zombie) before spawn returns.
    ChildFirst,
    /// The child does nothing until the parent has written min(len, pipe capacity) bytes.
    ParentFirst,
    /// No forcing at all (recorded only, never compared).
    Free,
}

#[derive(Debug, Clone, Serialize, Deserialize)]
pub struct Scenario {
    pub name: String,
    pub job: Job,
    pub spawn: SpawnPlan,
    pub script: Vec<Op>,
    pub order: Order,
    /// earlier calls of the same job in the same process, each with its own formatter
    #[serde(default)]
    pub earlier: Vec<(SpawnPlan, Vec<Op>)>,
}

#[derive(Debug, Clone, Serialize, Deserialize)]
struct ChildConfig {
    script: Vec<Op>,
    order: Order,
    expected_len: usize,
    reference_path: String,
}

// ---------------------------------------------------------------------------------------------
// The scripted child (`rustfmt` on PATH)

fn fionread(fd: i32) -> usize {
    let mut n: libc::c_int = 0;
    unsafe {
        libc::ioctl(fd, libc::FIONREAD, &mut n);
    }
    n.max(0) as usize
}

pub fn child_main() -> ! {
    unsafe {
        // no core files for the signal scenarios
        let lim = libc::rlimit {
            rlim_cur: 0,
            rlim_max: 0,
        };
        libc::setrlimit(libc::RLIMIT_CORE, &lim);
    }
    let cfg: ChildConfig = match std::env::var("WGSL_SIM_CHILD_SCRIPT")
        .ok()
        .and_then(|s| serde_json::from_str(&s).ok())
    {
        Some(c) => c,
        None => std::process::exit(97),
    };
    if cfg.order == Order::ParentFirst {
        // Wait until the parent has written what it is going to write before we look: the whole
        // input, a full pipe, or - for a driver that sends its text in pieces - whatever stopped
        // growing a while ago (the parent is done or blocked on us).
        let want = cfg.expected_len.min(65536);
        let start = std::time::Instant::now();
        let mut seen = 0usize;
        let mut last_growth = start;
        loop {
            let now_there = fionread(0);
            if now_there >= want || start.elapsed() >= std::time::Duration::from_secs(3) {
                break;
            }
            if now_there > seen {
                seen = now_there;
                last_growth = std::time::Instant::now();
            } else if last_growth.elapsed() >= std::time::Duration::from_millis(if seen > 0 { 120 } else { 400 }) {
                break;
            }
            std::thread::sleep(std::time::Duration::from_millis(1));
        }
    }
    let reference = std::fs::read_to_string(&cfg.reference_path).unwrap_or_default();
    // `rustfmt <file>`: the same reading of the command line as the model's (procsim::spawn)
    let mut file_args: Vec<std::path::PathBuf> = Vec::new();
    let mut emit_stdout = false;
    let mut skip_value = false;
    for arg in std::env::args().skip(1) {
        if skip_value {
            skip_value = false;
            if arg == "stdout" {
                emit_stdout = true;
            }
            continue;
        }
        if arg == "--emit=stdout" {
            emit_stdout = true;
        } else if matches!(
            arg.as_str(),
            "--emit" | "--edition" | "--config" | "--config-path" | "--color" | "--file-lines" | "--print-config" | "--style-edition"
        ) {
            skip_value = true;
        } else if !arg.starts_with('-') {
            file_args.push(std::path::PathBuf::from(arg));
        }
    }
    let in_place = !file_args.is_empty() && !emit_stdout;
    let mut received: Vec<u8> = Vec::new();
    let mut outbuf: Vec<u8> = Vec::new();
    let mut fmt_failed = false;
    let mut stdin_open = true;
    let mut stdout_open = true;
    let read_some = |n: Option<usize>, received: &mut Vec<u8>, stdin_open: bool| {
        if !stdin_open {
            return;
        }
        let mut got = 0usize;
        let mut buf = [0u8; 65536];
        loop {
            let want = match n {
                Some(n) if got >= n => break,
                Some(n) => (n - got).min(buf.len()),
                None => buf.len(),
            };
            let r = unsafe { libc::read(0, buf.as_mut_ptr() as *mut libc::c_void, want) };
            if r <= 0 {
                break;
            }
            received.extend_from_slice(&buf[..r as usize]);
            got += r as usize;
        }
    };
    for op in cfg.script.iter().cloned().chain(std::iter::once(Op::Exit(0))) {
        match op {
            Op::Delay(t) => {
                let ms = if t >= 1_000_000 {
                    60
                } else if t >= 1000 {
                    15
                } else {
                    1
                };
                std::thread::sleep(std::time::Duration::from_millis(ms));
            }
            Op::Read(n) => read_some(Some(n), &mut received, stdin_open),
            Op::ReadToEof => read_some(None, &mut received, stdin_open),
            Op::Format => {
                let mut input = received.clone();
                for path in &file_args {
                    if let Ok(bytes) = std::fs::read(path) {
                        input.extend(bytes);
                    }
                }
                match std::str::from_utf8(&input).ok().and_then(crate::procsim::format_source) {
                    Some(text) if in_place => {
                        for path in &file_args {
                            let _ = std::fs::write(path, text.as_bytes());
                        }
                    }
                    Some(text) => outbuf.extend(text.bytes()),
                    None => fmt_failed = true,
                }
            }
            Op::EmitRef(permille) => {
                let n = crate::procsim::emit_ref_len(&reference, permille);
                outbuf.extend_from_slice(&reference.as_bytes()[..n]);
            }
            Op::EmitGarbage(n) => outbuf.extend(b"%% not rust @@ ".iter().cycle().take(n)),
            Op::EmitNonUtf8(n) => outbuf.extend(std::iter::repeat(0xffu8).take(n)),
            Op::Flush if in_place => {
                if !outbuf.is_empty() {
                    for path in &file_args {
                        let _ = std::fs::write(path, &outbuf);
                    }
                }
                outbuf.clear();
            }
            Op::Flush => {
                if stdout_open && !outbuf.is_empty() {
                    let mut off = 0;
                    while off < outbuf.len() {
                        let r = unsafe {
                            libc::write(
                                1,
                                outbuf[off..].as_ptr() as *const libc::c_void,
                                outbuf.len() - off,
                            )
                        };
                        if r <= 0 {
                            // EPIPE (SIGPIPE is ignored by the Rust runtime): die like a C program would
                            unsafe {
                                libc::signal(libc::SIGPIPE, libc::SIG_DFL);
                                libc::kill(libc::getpid(), libc::SIGPIPE);
                            }
                            std::process::exit(141);
                        }
                        off += r as usize;
                    }
                }
                outbuf.clear();
            }
            Op::Stderr(n) => {
                let line = b"error: simulated diagnostic\n";
                let bytes: Vec<u8> = line.iter().cycle().take(n).copied().collect();
                let mut off = 0;
                while off < bytes.len() {
                    let r = unsafe {
                        libc::write(2, bytes[off..].as_ptr() as *const libc::c_void, bytes.len() - off)
                    };
                    if r <= 0 {
                        break;
                    }
                    off += r as usize;
                }
            }
            Op::CloseStdin => {
                unsafe { libc::close(0) };
                stdin_open = false;
            }
            Op::CloseStdout => {
                unsafe { libc::close(1) };
                stdout_open = false;
            }
            Op::Exit(c) => unsafe { libc::_exit(c & 0xff) },
            Op::ExitAuto => unsafe { libc::_exit(if fmt_failed { 1 } else { 0 }) },
            Op::Kill(sig) => unsafe {
                libc::signal(sig, libc::SIG_DFL);
                libc::kill(libc::getpid(), sig);
                std::thread::sleep(std::time::Duration::from_secs(5));
                libc::_exit(98);
            },
        }
    }
    unsafe { libc::_exit(0) }
}

// ---------------------------------------------------------------------------------------------
// Parent side: a backend that spawns the real process and forces the ordering

struct RealChild {
    child: Mutex<std::process::Child>,
    stdin: Mutex<Option<std::process::ChildStdin>>,
    stdout: Mutex<Option<std::process::ChildStdout>>,
    stderr: Mutex<Option<std::process::ChildStderr>>,
    pid: u32,
}

impl ChildIo for RealChild {
    fn write(&self, _fd: Fd, buf: &[u8]) -> std::io::Result<usize> {
        match self.stdin.lock().unwrap().as_mut() {
            Some(s) => s.write(buf),
            None => Err(std::io::Error::from_raw_os_error(libc::EBADF)),
        }
    }
    fn flush(&self, _fd: Fd) -> std::io::Result<()> {
        Ok(())
    }
    fn read(&self, fd: Fd, buf: &mut [u8]) -> std::io::Result<usize> {
        match fd {
            Fd::Stdout => match self.stdout.lock().unwrap().as_mut() {
                Some(s) => s.read(buf),
                None => Ok(0),
            },
            Fd::Stderr => match self.stderr.lock().unwrap().as_mut() {
                Some(s) => s.read(buf),
                None => Ok(0),
            },
            Fd::Stdin => Ok(0),
        }
    }
    fn read2(&self, stdout: &mut Vec<u8>, stderr: &mut Vec<u8>) -> std::io::Result<()> {
        // two real pipes: drain stderr on a helper thread like the seam's passthrough does
        let err = self.stderr.lock().unwrap().take();
        let reader = std::thread::spawn(move || {
            let mut bytes = Vec::new();
            if let Some(mut e) = err {
                let _ = e.read_to_end(&mut bytes);
            }
            bytes
        });
        if let Some(out) = self.stdout.lock().unwrap().as_mut() {
            out.read_to_end(stdout)?;
        }
        *stderr = reader.join().unwrap_or_default();
        Ok(())
    }
    fn close(&self, fd: Fd) {
        match fd {
            Fd::Stdin => drop(self.stdin.lock().unwrap().take()),
            Fd::Stdout => drop(self.stdout.lock().unwrap().take()),
            Fd::Stderr => drop(self.stderr.lock().unwrap().take()),
        }
    }
    fn wait(&self) -> std::io::Result<ExitStatus> {
        self.child.lock().unwrap().wait()
    }
    fn try_wait(&self) -> std::io::Result<Option<ExitStatus>> {
        self.child.lock().unwrap().try_wait()
    }
    fn kill(&self) -> std::io::Result<()> {
        self.child.lock().unwrap().kill()
    }
    fn id(&self) -> u32 {
        self.pid
    }
    fn handle_dropped(&self) {
        // reap in any case so no zombie outlives the scenario
        let mut c = self.child.lock().unwrap();
        let _ = c.kill();
        let _ = c.wait();
    }
}

fn proc_state(pid: u32) -> Option<char> {
    let stat = std::fs::read_to_string(format!("/proc/{pid}/stat")).ok()?;
    let rest = &stat[stat.rfind(')')? + 1..];
    rest.trim_start().chars().next()
}

struct KernelBackend {
    order: Order,
}

impl Backend for KernelBackend {
    fn point(&self, _site: &'static str) {}

    fn spawn(&self, spec: &SpawnSpec) -> Option<std::io::Result<Arc<dyn ChildIo>>> {
        let to_std = |k: StdioKind| match k {
            StdioKind::Inherit => std::process::Stdio::inherit(),
            StdioKind::Null => std::process::Stdio::null(),
            StdioKind::Piped => std::process::Stdio::piped(),
        };
        let mut cmd = std::process::Command::new(&spec.program);
        cmd.args(&spec.args)
            .stdin(to_std(spec.stdin))
            .stdout(to_std(spec.stdout))
            .stderr(to_std(spec.stderr));
        let mut child = match cmd.spawn() {
            Ok(c) => c,
            Err(e) => return Some(Err(e)),
        };
        let pid = child.id();
        if self.order == Order::ChildFirst {
            // Wait until the child is a zombie (all its pipe ends are closed then) or has been
            // asleep (blocked on a read) for a while.
            let start = std::time::Instant::now();
            let mut asleep_since: Option<std::time::Instant> = None;
            loop {
                match proc_state(pid) {
                    Some('Z') | None => break,
                    Some('S') => {
                        let since = *asleep_since.get_or_insert_with(std::time::Instant::now);
                        if since.elapsed() > std::time::Duration::from_millis(120) {
                            break;
                        }
                    }
                    _ => asleep_since = None,
                }
                if start.elapsed() > std::time::Duration::from_secs(5) {
                    break;
                }
                std::thread::sleep(std::time::Duration::from_millis(1));
            }
        }
        let stdin = child.stdin.take();
        let stdout = child.stdout.take();
        let stderr = child.stderr.take();
        Some(Ok(Arc::new(RealChild {
            child: Mutex::new(child),
            stdin: Mutex::new(stdin),
            stdout: Mutex::new(stdout),
            stderr: Mutex::new(stderr),
            pid,
        })))
    }
}

/// `wgsl-sim kernel-case`: one scenario in this (fresh) process; prints the outcome class.
pub fn case_main() -> i32 {
    let mut text = String::new();
    if std::io::stdin().read_to_string(&mut text).is_err() {
        return 2;
    }
    let sc: Scenario = match serde_json::from_str(&text) {
        Ok(s) => s,
        Err(e) => {
            eprintln!("HARNESS-ERROR kernel-case input: {e}");
            return 2;
        }
    };
    let cache = c19::new_ref_cache();
    let Some(reference) = c19::reference_for(&cache, &sc.job) else {
        println!("{}", serde_json::json!({"class": "skipped:no_reference_program"}));
        return 0;
    };
    let dir = std::env::var("WGSL_SIM_KERNEL_DIR").unwrap_or_else(|_| "/tmp".into());
    let reference_path = format!("{dir}/reference-{}.rs", std::process::id());
    let _ = std::fs::write(&reference_path, reference.text.as_bytes());
    let source = sc.job.shader.source();
    let mut options = sc.job.options;
    options.rustfmt = true;
    // what the parent will send: the raw token string is not available here, but its length is
    // within a few percent of the pretty-printed reference; the child only needs a lower bound
    let expected_len = reference.text.len() / 2;
    let path_with_stub = std::env::var("PATH").unwrap_or_default();
    let prepare = |spawn: SpawnPlan, script: &[Op]| {
        let cfg = ChildConfig {
            script: script.to_vec(),
            order: sc.order,
            expected_len,
            reference_path: reference_path.clone(),
        };
        std::env::set_var("WGSL_SIM_CHILD_SCRIPT", serde_json::to_string(&cfg).unwrap());
        match spawn {
            SpawnPlan::Ok => std::env::set_var("PATH", &path_with_stub),
            // "formatter missing": a PATH without any rustfmt / with a non-executable one
            SpawnPlan::NotFound => std::env::set_var("PATH", format!("{dir}/empty")),
            _ => std::env::set_var("PATH", format!("{dir}/noexec")),
        }
    };
    verif_hooks::install(Some(Arc::new(KernelBackend { order: sc.order }) as Arc<dyn Backend>));
    // A real hang must not take the harness with it.
    unsafe {
        // generous: a driver that formats in pieces starts dozens of real processes per call,
        // and the machine may be busy; only a real hang gets this far
        libc::alarm(90);
    }
    // earlier calls of the sequence, judged like the last one (the first failure is the verdict)
    let mut first_failure: Option<String> = None;
    for (spawn, script) in &sc.earlier {
        prepare(*spawn, script);
        let result = std::panic::catch_unwind(std::panic::AssertUnwindSafe(|| {
            corpus::run_job(&source, sc.job.include_path.as_deref(), options)
        }));
        let (class, failure) = c19::judge(result, &reference, None);
        if failure.is_some() && first_failure.is_none() {
            first_failure = Some(class);
        }
    }
    prepare(sc.spawn, &sc.script);
    let result = std::panic::catch_unwind(std::panic::AssertUnwindSafe(|| {
        corpus::run_job(&source, sc.job.include_path.as_deref(), options)
    }));
    verif_hooks::install(None);
    let _ = std::fs::remove_file(&reference_path);
    let (class, _failure) = c19::judge(result, &reference, None);
    println!("{}", serde_json::json!({"class": first_failure.unwrap_or(class)}));
    0
}

// ---------------------------------------------------------------------------------------------
// Driver

pub fn scenarios(tier: Tier) -> Vec<Scenario> {
    let small = ShaderRef::Repo {
        path: "wgsl_to_wgpu/src/data/fragment_simple.wgsl".into(),
    };
    let large = ShaderRef::Gen { seed: 7, scale: 10 };
    let scripts: Vec<(&str, SpawnPlan, Vec<Op>)> = vec![
        ("absent_notfound", SpawnPlan::NotFound, vec![]),
        ("absent_noexec", SpawnPlan::PermissionDenied, vec![]),
        ("normal", SpawnPlan::Ok, vec![Op::ReadToEof, Op::Format, Op::Flush, Op::ExitAuto]),
        ("slow_normal", SpawnPlan::Ok, vec![Op::Delay(1_000_000), Op::ReadToEof, Op::Delay(1000), Op::Format, Op::Flush, Op::Delay(1000), Op::ExitAuto]),
        ("exit1_after_reading", SpawnPlan::Ok, vec![Op::ReadToEof, Op::Exit(1)]),
        ("exit1_after_formatting", SpawnPlan::Ok, vec![Op::ReadToEof, Op::Format, Op::Flush, Op::Exit(1)]),
        ("exit101_after_prefix", SpawnPlan::Ok, vec![Op::ReadToEof, Op::EmitRef(500), Op::Flush, Op::Exit(101)]),
        ("exit1_after_whole_items", SpawnPlan::Ok, vec![Op::ReadToEof, Op::EmitRef(1400), Op::Flush, Op::Exit(1)]),
        ("sigkill_after_whole_items", SpawnPlan::Ok, vec![Op::ReadToEof, Op::EmitRef(1200), Op::Flush, Op::Kill(libc::SIGKILL)]),
        ("exit1_without_reading", SpawnPlan::Ok, vec![Op::Exit(1)]),
        ("exit127_without_reading", SpawnPlan::Ok, vec![Op::Exit(127)]),
        ("close_stdin_then_exit2", SpawnPlan::Ok, vec![Op::CloseStdin, Op::Delay(1000), Op::Exit(2)]),
        ("read100_exit1", SpawnPlan::Ok, vec![Op::Read(100), Op::Exit(1)]),
        ("read5000_sigkill", SpawnPlan::Ok, vec![Op::Read(5000), Op::Kill(libc::SIGKILL)]),
        ("sigkill_at_once", SpawnPlan::Ok, vec![Op::Kill(libc::SIGKILL)]),
        ("sigsegv_at_once", SpawnPlan::Ok, vec![Op::Kill(libc::SIGSEGV)]),
        ("sigterm_after_reading", SpawnPlan::Ok, vec![Op::ReadToEof, Op::Kill(libc::SIGTERM)]),
        ("sigkill_mid_output", SpawnPlan::Ok, vec![Op::ReadToEof, Op::EmitRef(300), Op::Flush, Op::Kill(libc::SIGKILL)]),
        ("chatty_exit1_without_reading", SpawnPlan::Ok, vec![Op::Stderr(300_000), Op::Exit(1)]),
        ("chatty_exit1_before_reading", SpawnPlan::Ok, vec![Op::Stderr(300_000), Op::ReadToEof, Op::Exit(1)]),
        ("chatty_normal", SpawnPlan::Ok, vec![Op::ReadToEof, Op::Stderr(70_000), Op::Format, Op::Flush, Op::ExitAuto]),
        ("empty_after_reading", SpawnPlan::Ok, vec![Op::ReadToEof, Op::Exit(0)]),
        ("empty_without_reading", SpawnPlan::Ok, vec![Op::Exit(0)]),
        ("empty_read10", SpawnPlan::Ok, vec![Op::Read(10), Op::Exit(0)]),
        ("empty_closed_stdout", SpawnPlan::Ok, vec![Op::CloseStdout, Op::ReadToEof, Op::Exit(0)]),
        // outside the oracle, but the model must still agree with the kernel on them
        ("info_garbage_exit0", SpawnPlan::Ok, vec![Op::ReadToEof, Op::EmitGarbage(3000), Op::Flush, Op::Exit(0)]),
        ("info_nonutf8_exit0", SpawnPlan::Ok, vec![Op::ReadToEof, Op::EmitNonUtf8(100), Op::Flush, Op::Exit(0)]),
        ("info_prefix_exit0", SpawnPlan::Ok, vec![Op::ReadToEof, Op::EmitRef(400), Op::Flush, Op::Exit(0)]),
    ];
    let mut out = Vec::new();
    let shaders: Vec<(&str, ShaderRef)> = if tier == Tier::Quick {
        vec![("small", small), ("large", large)]
    } else {
        vec![
            ("small", small),
            ("large", large),
            ("xlarge", ShaderRef::Gen { seed: 11, scale: 24 }),
            ("types", ShaderRef::Repo { path: "wgsl_to_wgpu/src/data/struct/types.wgsl".into() }),
        ]
    };
    for (sname, shader) in &shaders {
        for (name, spawn, script) in &scripts {
            for order in [Order::ChildFirst, Order::ParentFirst] {
                let mut options = Opts::plain();
                options.bytemuck_host = true;
                out.push(Scenario {
                    name: format!("{name}/{sname}/{order:?}"),
                    job: Job {
                        shader: shader.clone(),
                        include_path: None,
                        options,
                    },
                    spawn: *spawn,
                    script: script.clone(),
                    order,
                    earlier: vec![],
                });
            }
        }
    }
    // sequences of calls in one process: what an earlier call's formatter did (a zombie, a closed
    // pipe, a signal) must not reach the next call on the real kernel either
    let find = |name: &str| scripts.iter().find(|(n, _, _)| *n == name).map(|(_, s, ops)| (*s, ops.clone())).unwrap();
    let sequences: Vec<(&str, Vec<&str>)> = vec![
        ("seq_exit1_without_reading_then_normal", vec!["exit1_without_reading", "normal"]),
        ("seq_sigkill_mid_output_then_normal", vec!["sigkill_mid_output", "normal"]),
        ("seq_absent_then_normal", vec!["absent_notfound", "normal"]),
        ("seq_normal_then_absent", vec!["normal", "absent_notfound"]),
        ("seq_read5000_sigkill_then_empty", vec!["read5000_sigkill", "empty_after_reading"]),
        ("seq_normal_then_exit1_after_prefix", vec!["normal", "exit101_after_prefix"]),
        ("seq_three_failures_then_normal", vec!["sigkill_at_once", "exit1_without_reading", "chatty_exit1_without_reading", "normal"]),
    ];
    for (sname, shader) in shaders.iter().take(2) {
        for (name, steps) in &sequences {
            for order in [Order::ChildFirst, Order::ParentFirst] {
                let mut options = Opts::plain();
                options.bytemuck_host = true;
                let (last_spawn, last_script) = find(steps[steps.len() - 1]);
                out.push(Scenario {
                    name: format!("{name}/{sname}/{order:?}"),
                    job: Job {
                        shader: shader.clone(),
                        include_path: None,
                        options,
                    },
                    spawn: last_spawn,
                    script: last_script,
                    order,
                    earlier: steps[..steps.len() - 1].iter().map(|s| find(s)).collect(),
                });
            }
        }
    }
    out
}

fn model_class(sc: &Scenario) -> String {
    let case = Case {
        job: sc.job.clone(),
        proc: model_plan(sc),
        env: vec![],
        later: vec![],
        earlier_calls: sc
            .earlier
            .iter()
            .map(|(spawn, script)| {
                model_plan(&Scenario {
                    spawn: *spawn,
                    script: script.clone(),
                    earlier: vec![],
                    ..sc.clone()
                })
            })
            .collect(),
    };
    c19::run_case_isolated(&case, false).outcome_class
}

fn model_plan(sc: &Scenario) -> ProcPlan {
    let mut script = Vec::new();
    let (op_cost, parent_costs) = match sc.order {
        Order::ChildFirst => (0, vec![1_000_000]),
        _ => {
            // long enough for the parent to get all its writes in first (each seam call costs
            // one tick), short enough not to look like a hanging formatter to code with timeouts
            script.push(Op::Delay(50));
            (1, vec![1])
        }
    };
    script.extend(sc.script.iter().cloned());
    ProcPlan {
        spawn: sc.spawn,
        script,
        stdin_cap: 65536,
        stdout_cap: 65536,
        chunk: 65536,
        op_cost,
        parent_costs,
        short_writes: false,
        exit_lag: 0,
        read_max: 0,
    }
}

pub struct Disagreement {
    pub scenario: Scenario,
    pub model: String,
    pub kernel: String,
    /// the oracle of DESIGN §4.2 applies to this scenario's script
    pub eligible: bool,
}

pub struct KernelReport {
    pub scenarios: u64,
    pub agree: u64,
    pub disagreements: Vec<Disagreement>,
    pub classes: BTreeMap<String, u64>,
}

/// Scratch directory with the scripted `rustfmt` stub; removed on drop.
pub struct KernelEnv {
    dir: std::path::PathBuf,
    exe: std::path::PathBuf,
}

impl KernelEnv {
    pub fn new() -> Result<KernelEnv, String> {
        static N: std::sync::atomic::AtomicUsize = std::sync::atomic::AtomicUsize::new(0);
        let dir = std::env::temp_dir().join(format!(
            "wgsl-sim-kernel-{}-{}",
            std::process::id(),
            N.fetch_add(1, std::sync::atomic::Ordering::Relaxed)
        ));
        let _ = std::fs::remove_dir_all(&dir);
        for d in ["bin", "empty", "noexec"] {
            std::fs::create_dir_all(dir.join(d)).map_err(|e| e.to_string())?;
        }
        let exe = std::env::current_exe().map_err(|e| e.to_string())?;
        std::fs::copy(&exe, dir.join("bin/rustfmt")).map_err(|e| format!("copy stub: {e}"))?;
        std::fs::write(dir.join("noexec/rustfmt"), "not executable").map_err(|e| e.to_string())?;
        {
            use std::os::unix::fs::PermissionsExt;
            let _ = std::fs::set_permissions(
                dir.join("noexec/rustfmt"),
                std::fs::Permissions::from_mode(0o644),
            );
        }
        Ok(KernelEnv { dir, exe })
    }

    /// Run one scenario in a fresh process against the real kernel; returns its outcome class.
    pub fn run(&self, sc: &Scenario) -> Result<String, String> {
        let mut child = std::process::Command::new(&self.exe)
            .arg("kernel-case")
            .env("PATH", format!("{}/bin:/usr/bin:/bin", self.dir.display()))
            .env("WGSL_SIM_KERNEL_DIR", &self.dir)
            .env("VERIF_REPO", corpus::repo_root())
            .stdin(std::process::Stdio::piped())
            .stdout(std::process::Stdio::piped())
            .stderr(std::process::Stdio::null())
            .spawn()
            .map_err(|e| e.to_string())?;
        child
            .stdin
            .take()
            .unwrap()
            .write_all(serde_json::to_string(sc).unwrap().as_bytes())
            .map_err(|e| e.to_string())?;
        let out = child.wait_with_output().map_err(|e| e.to_string())?;
        if out.status.signal() == Some(libc::SIGALRM) {
            return Ok("hang:real_process_timeout".into());
        }
        let v: serde_json::Value = serde_json::from_slice(&out.stdout)
            .map_err(|e| format!("kernel-case output ({:?}): {e}", out.status))?;
        Ok(v["class"].as_str().unwrap_or("?").to_string())
    }
}

impl Drop for KernelEnv {
    fn drop(&mut self) {
        let _ = std::fs::remove_dir_all(&self.dir);
    }
}

pub fn cross_check(tier: Tier) -> Result<KernelReport, String> {
    let env = KernelEnv::new()?;
    let list = scenarios(tier);
    let results: Mutex<Vec<(usize, String, String)>> = Mutex::new(Vec::new());
    let next = std::sync::atomic::AtomicUsize::new(0);
    let error = Mutex::new(None::<String>);
    std::thread::scope(|scope| {
        for _ in 0..crate::workers().min(8) {
            scope.spawn(|| loop {
                let i = next.fetch_add(1, std::sync::atomic::Ordering::Relaxed);
                if i >= list.len() {
                    break;
                }
                let sc = &list[i];
                let model = model_class(sc);
                match env.run(sc) {
                    Ok(real) => results.lock().unwrap().push((i, model, real)),
                    Err(e) => *error.lock().unwrap() = Some(format!("{}: {e}", sc.name)),
                }
            });
        }
    });
    if let Some(e) = error.into_inner().unwrap() {
        return Err(e);
    }
    let mut report = KernelReport {
        scenarios: 0,
        agree: 0,
        disagreements: Vec::new(),
        classes: BTreeMap::new(),
    };
    let mut results = results.into_inner().unwrap();
    results.sort();
    for (i, model, real) in results {
        report.scenarios += 1;
        *report.classes.entry(real.clone()).or_default() += 1;
        // "hang" verdicts are named differently on the two sides
        let same = model == real || (model.starts_with("hang:") && real.starts_with("hang:"));
        if same {
            report.agree += 1;
        } else {
            let sc = list[i].clone();
            let (mut eligible, _) = c19::classify(&model_plan(&sc));
            for (spawn, script) in &sc.earlier {
                let step = Scenario {
                    spawn: *spawn,
                    script: script.clone(),
                    earlier: vec![],
                    ..sc.clone()
                };
                eligible &= c19::classify(&model_plan(&step)).0;
            }
            report.disagreements.push(Disagreement {
                scenario: sc,
                model,
                kernel: real,
                eligible,
            });
        }
    }
    Ok(report)
}

pub fn main(tier: Tier) -> i32 {
    match cross_check(tier) {
        Ok(r) => {
            println!(
                "kernel cross-check: {} scenarios, {} agree, classes {:?}",
                r.scenarios, r.agree, r.classes
            );
            for d in &r.disagreements {
                println!("MODEL-DISAGREES {}: model={} kernel={}", d.scenario.name, d.model, d.kernel);
            }
            if r.disagreements.is_empty() {
                0
            } else {
                eprintln!("HARNESS-ERROR the formatter-process model disagrees with the kernel");
                2
            }
        }
        Err(e) => {
            eprintln!("HARNESS-ERROR {e}");
            2
        }
    }
}
