pub fn child_main() -> ! { std::process::exit(0) }
